package main

import (
	"encoding/json"
	"fmt"
	"net/url"
	"strings"

	"github.com/dgraph-io/badger"
	res "github.com/jirenius/go-res"
	"github.com/jirenius/go-res/logger"
	"github.com/jirenius/go-res/store"
	"github.com/jirenius/go-res/store/badgerstore"

	"verif/envnats"
	"verif/scen"
	"verif/vsched"
)

func init() {
	seqChecks["c14h"] = &seqCheck{run: runC14h, replay: replayC14h,
		rule: "every mutation history of <=3 (4 thorough) operations over the C13 value set, served through store.QueryHandler on a real Service: an ordinary collection resource, a query resource and a query resource with a path parameter + AffectedResources (also with one affected resource that the RequestHandler refuses, named first or last) and a query resource with a path parameter + AffectedResources whose normalised query is the same for every resource; a reference client holding the result of queries {'', k, l} follows system.reset (re-fetch) and query events (query request, apply events or replace by the new result) and must then equal a fresh get whenever the reference result changed; distinct = distinct (history, kind, message list)"}
}

// the reference client of one (resource, query)
type c14Client struct {
	rid   string // resource name
	query string // normalised query ("" for ordinary resources)
	cache []interface{}
}

func c14Get(conn *envnats.Conn, rid, query string) ([]interface{}, string) {
	n0 := len(conn.Pubs)
	payload := []byte(nil)
	if query != "" {
		payload = []byte(`{"query":"` + query + `"}`)
	}
	conn.Inject("get."+rid, "GET", payload)
	vsched.AwaitQuiescence()
	for _, m := range conn.Pubs[n0:] {
		if m.Subject == "GET" {
			var r struct {
				Result struct {
					Collection []interface{} `json:"collection"`
					Query      string        `json:"query"`
				} `json:"result"`
				Error *struct{ Code string } `json:"error"`
			}
			json.Unmarshal([]byte(m.Data), &r)
			if r.Error != nil {
				return nil, "error:" + r.Error.Code
			}
			return r.Result.Collection, r.Result.Query
		}
	}
	return nil, "noreply"
}

func c14hRun(db *badger.DB, kind string, ops []c13Op, emit func(string)) string {
	var sig []string
	r := scen.RunSeq(func() {
		dbClear(db)
		st := badgerstore.NewStore(db)
		qs := badgerstore.NewQueryStore(st, func(qs *badgerstore.QueryStore, q url.Values) (*badgerstore.IndexQuery, error) {
			return &badgerstore.IndexQuery{Index: qs.Index("i"), KeyPrefix: []byte(q.Get("prefix")), Limit: -1}, nil
		})
		qs.AddIndex(badgerstore.Index{Name: "i", Key: func(v interface{}) []byte { return c13Key("i", v.(map[string]interface{})) }})
		conn := envnats.New()
		conn.Quiet = true
		conn.KeepPubs = true
		s := res.NewService("t")
		s.SetLogger(logger.NewMemLogger())
		s.SetWorkerCount(1)
		tr := store.IDToRIDCollectionTransformer(func(id string) string { return "t.item." + id })
		var clients []*c14Client
		switch kind {
		case "ordinary":
			s.Handle("list", res.Collection, store.QueryHandler{QueryStore: qs, Transformer: tr})
			clients = []*c14Client{{rid: "t.list"}}
		case "query":
			s.Handle("search", res.Collection, store.QueryHandler{QueryStore: qs, Transformer: tr,
				QueryRequestHandler: func(rname string, pp map[string]string, q url.Values) (url.Values, string, error) {
					p := q.Get("prefix")
					return url.Values{"prefix": {p}}, "prefix=" + p, nil
				}})
			clients = []*c14Client{{rid: "t.search", query: "prefix="}, {rid: "t.search", query: "prefix=k"}, {rid: "t.search", query: "prefix=l"}}
		case "param", "paramfailA", "paramfailB":
			// the prefix is a path parameter: t.by.<prefix>; AffectedResources names the resources of old and new key.
			// paramfailA / paramfailB: the resource t.by.k is refused by the RequestHandler (an affected resource
			// whose events cannot be generated), named before (A) or after (B) the resources that can be served:
			// the clients of the other affected resources must be told all the same.
			s.Handle("by.$p", res.Collection, store.QueryHandler{QueryStore: qs, Transformer: tr,
				RequestHandler: func(rname string, pp map[string]string) (url.Values, error) {
					if kind != "param" && pp["p"] == "k" {
						return nil, res.ErrNotFound
					}
					return url.Values{"prefix": {pp["p"]}}, nil
				},
				AffectedResources: func(p res.Pattern, qc store.QueryChange) []string {
					seen := map[string]bool{}
					var out []string
					for _, v := range []interface{}{qc.Before(), qc.After()} {
						if v == nil {
							continue
						}
						k := string(c13Key("i", v.(map[string]interface{})))
						for i := 1; i <= len(k); i++ {
							rid := string(p.ReplaceTag("p", k[:i]))
							if !seen[rid] {
								seen[rid] = true
								out = append(out, rid)
							}
						}
					}
					if kind == "paramfailB" {
						for i, j := 0, len(out)-1; i < j; i, j = i+1, j-1 {
							out[i], out[j] = out[j], out[i]
						}
					}
					return out
				}})
			clients = []*c14Client{{rid: "t.by.k"}, {rid: "t.by.l"}, {rid: "t.by.ka"}}
			if kind != "param" {
				clients = clients[1:]
			}
		case "qparam":
			// a query resource whose path parameter feeds the store query while the normalised query is the same
			// for every resource; AffectedResources names t.qby.x (matches nothing) first, then the resources of
			// the old and new key: what one affected resource is told may not be reused for another one.
			s.Handle("qby.$p", res.Collection, store.QueryHandler{QueryStore: qs, Transformer: tr,
				QueryRequestHandler: func(rname string, pp map[string]string, q url.Values) (url.Values, string, error) {
					return url.Values{"prefix": {pp["p"]}}, "all=1", nil
				},
				AffectedResources: func(p res.Pattern, qc store.QueryChange) []string {
					seen := map[string]bool{}
					out := []string{string(p.ReplaceTag("p", "x"))}
					for _, v := range []interface{}{qc.Before(), qc.After()} {
						if v == nil {
							continue
						}
						k := string(c13Key("i", v.(map[string]interface{})))
						for i := 1; i <= len(k); i++ {
							rid := string(p.ReplaceTag("p", k[:i]))
							if !seen[rid] {
								seen[rid] = true
								out = append(out, rid)
							}
						}
					}
					return out
				}})
			clients = []*c14Client{{rid: "t.qby.x", query: "all=1"}, {rid: "t.qby.k", query: "all=1"}, {rid: "t.qby.l", query: "all=1"}, {rid: "t.qby.ka", query: "all=1"}}
		}
		var subjects []string
		conn.OnPub = func(m envnats.Msg) {
			if strings.HasSuffix(m.Subject, ".query") {
				var e struct{ Subject string }
				json.Unmarshal([]byte(m.Data), &e)
				subjects = append(subjects, e.Subject)
			}
		}
		served := make(chan struct{}, 1)
		s.SetOnServe(func(*res.Service) { vsched.Send(served, struct{}{}) })
		vsched.Go("serve", func() { s.Serve(conn) })
		vsched.Recv(served)
		for _, cl := range clients {
			cl.cache, _ = c14Get(conn, cl.rid, cl.query)
		}
		for oi, op := range ops {
			n0 := len(conn.Pubs)
			subjects = nil
			wt := st.Write(op.ID)
			switch op.Kind {
			case "create":
				wt.Create(c13Vals[op.Val].value())
			case "update":
				wt.Update(c13Vals[op.Val].value())
			case "delete":
				wt.Delete()
			}
			wt.Close()
			qs.Flush()
			vsched.AwaitQuiescence()
			msgs := append([]envnats.Msg{}, conn.Pubs[n0:]...)
			for _, cl := range clients {
				var got []string
				for _, m := range msgs {
					switch {
					case m.Subject == "system.reset":
						var e struct{ Resources []string }
						json.Unmarshal([]byte(m.Data), &e)
						for _, p := range e.Resources {
							if res.Pattern(p).Matches(cl.rid) {
								got = append(got, "reset")
								cl.cache, _ = c14Get(conn, cl.rid, cl.query)
							}
						}
					case m.Subject == "event."+cl.rid+".query":
						var e struct{ Subject string }
						json.Unmarshal([]byte(m.Data), &e)
						n1 := len(conn.Pubs)
						q := strings.TrimPrefix(cl.query, "")
						conn.Inject(e.Subject, "QRESP", []byte(`{"query":"`+q+`"}`))
						vsched.AwaitQuiescence()
						for _, rm := range conn.Pubs[n1:] {
							if rm.Subject != "QRESP" {
								continue
							}
							var qr struct {
								Result *struct {
									Events []struct {
										Event string
										Data  json.RawMessage
									} `json:"events"`
									Collection []interface{} `json:"collection"`
								} `json:"result"`
								Error *struct{ Code string } `json:"error"`
							}
							json.Unmarshal([]byte(rm.Data), &qr)
							switch {
							case qr.Error != nil:
								got = append(got, "qerror:"+qr.Error.Code)
								emit(fmt.Sprintf("op %d %s: query request %q on %s answered with error %s", oi, op, q, cl.rid, qr.Error.Code))
							case qr.Result != nil && qr.Result.Collection != nil:
								got = append(got, "qresult")
								cl.cache = qr.Result.Collection
							case qr.Result != nil:
								got = append(got, fmt.Sprintf("qevents:%d", len(qr.Result.Events)))
								for _, ev := range qr.Result.Events {
									emit(fmt.Sprintf("op %d %s: query events are not expected from this store (%s)", oi, op, ev.Event))
								}
							}
						}
					case strings.HasPrefix(m.Subject, "event."+cl.rid+"."):
						got = append(got, m.Subject[strings.LastIndexByte(m.Subject, '.')+1:])
					}
				}
				fresh, st := c14Get(conn, cl.rid, cl.query)
				if js14(fresh) != js14(cl.cache) {
					emit(fmt.Sprintf("op %d %s: client of %s?%s holds %s after following %v, a fresh get returns %s (%s)", oi, op, cl.rid, cl.query, js14(cl.cache), got, js14(fresh), st))
					cl.cache = fresh
				}
				sig = append(sig, strings.Join(got, "+"))
			}
		}
	})
	for _, p := range r.Panics {
		emit("thread panicked: " + firstLineOf(p))
	}
	if r.Deadlock {
		emit("deadlock")
	}
	return strings.Join(sig, ";")
}

func js14(v []interface{}) string {
	if len(v) == 0 {
		return "[]"
	}
	b, _ := json.Marshal(v)
	return string(b)
}

func runC14h(c *seqCtx) {
	depth := 3
	if c.thorough {
		depth = 4
	}
	db := openDB()
	defer db.Close()
	ids := []string{"a", "b"}
	var rec func(ops []c13Op, present map[string]bool)
	rec = func(ops []c13Op, present map[string]bool) {
		if c.Stopped() {
			return
		}
		if len(ops) > 0 && c.Mine() {
			for _, kind := range []string{"ordinary", "query", "param", "paramfailA", "paramfailB", "qparam"} {
				in := kind + "|" + opsString(ops)
				sig := c14hRun(db, kind, ops, func(desc string) { c.Fail("C14", desc+" ["+in+"]", in) })
				c.Eval(in + "=>" + sig)
				c.out.Transitions += int64(len(ops))
			}
		}
		if len(ops) == depth {
			return
		}
		for _, id := range ids {
			if id == "b" && !usedID(ops, "a") {
				continue
			}
			if present[id] {
				for vi := range c13Vals[:4] {
					rec(append(append([]c13Op{}, ops...), c13Op{"update", id, vi}), present)
				}
				np := copyPresent(present)
				delete(np, id)
				rec(append(append([]c13Op{}, ops...), c13Op{"delete", id, 0}), np)
			} else {
				for vi := range c13Vals[:4] {
					np := copyPresent(present)
					np[id] = true
					rec(append(append([]c13Op{}, ops...), c13Op{"create", id, vi}), np)
				}
			}
		}
	}
	rec(nil, map[string]bool{})
	c.Sample("query|create:a:1,update:a:3 => client of t.search?prefix=k follows the query event and equals a fresh get")
}

func replayC14h(input string) []string {
	f := strings.SplitN(input, "|", 2)
	db := openDB()
	defer db.Close()
	var out []string
	c14hRun(db, f[0], parseC13Ops(f[1]), func(desc string) { out = append(out, "C14: "+desc) })
	return out
}

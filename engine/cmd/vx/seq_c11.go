package main

import (
	"errors"
	"fmt"
	"reflect"
	"sort"
	"strings"

	"github.com/dgraph-io/badger"
	"github.com/jirenius/go-res/store"
	"github.com/jirenius/go-res/store/badgerstore"
	"github.com/jirenius/go-res/store/mockstore"
)

func init() {
	seqChecks["c11"] = &seqCheck{run: runC11, replay: replayC11,
		rule: "every well-formed history of <=4 (5 thorough) operations, grouped into read/write transactions on ids {'',a,b}, over {Create v1, Create v2, Create wrong type, Update, Delete, Value, Exists} with a BeforeChange veto on or off, for mockstore and badgerstore (untyped / typed, with / without prefix, with and without any registered listener, and a mockstore that generates the id 'b' for a Create on the empty id); reference = Go map + expected callback list; distinct = distinct (store kind, history, result vector)"}
}

type c11Rec struct {
	N int    `json:"n"`
	K string `json:"k"`
}

type c11Kind struct {
	name   string
	typed  bool
	prefix string
	mock   bool
	// nolisten: no change listener is registered at all (results and final content only)
	nolisten bool
	// newid: the (mock) store generates ids: a Create on the empty id is a Create on the id "b"
	newid bool
}

var c11Kinds = []c11Kind{
	{name: "mock", mock: true},
	{name: "badger-untyped"},
	{name: "badger-untyped-prefix", prefix: "ba"},
	{name: "badger-typed", typed: true},
	{name: "badger-typed-prefix", typed: true, prefix: "ba"},
	{name: "badger-untyped-nolisten", nolisten: true},
	{name: "mock-nolisten", mock: true, nolisten: true},
	{name: "mock-newid", mock: true, newid: true},
}

func (k c11Kind) val(i int) interface{} {
	if k.typed {
		return c11Rec{N: i, K: fmt.Sprintf("k%d", i)}
	}
	return map[string]interface{}{"n": float64(i), "k": fmt.Sprintf("k%d", i)}
}

func (k c11Kind) wrong() interface{} {
	if k.typed {
		return map[string]interface{}{"n": 1.0}
	}
	return c11Rec{N: 9}
}

type c11Txn struct {
	Write bool
	ID    string
	Ops   []string
}

func c11HistString(kind string, veto bool, h []c11Txn) string {
	var parts []string
	for _, t := range h {
		k := "R"
		if t.Write {
			k = "W"
		}
		parts = append(parts, fmt.Sprintf("%s(%s):%s", k, t.ID, strings.Join(t.Ops, ",")))
	}
	return fmt.Sprintf("%s|%v|%s", kind, veto, strings.Join(parts, ";"))
}

func parseC11(s string) (kind string, veto bool, h []c11Txn) {
	f := strings.SplitN(s, "|", 3)
	kind, veto = f[0], f[1] == "true"
	if f[2] == "" {
		return
	}
	for _, p := range strings.Split(f[2], ";") {
		t := c11Txn{Write: p[0] == 'W'}
		i := strings.Index(p, "):")
		t.ID = p[2:i]
		if p[i+2:] != "" {
			t.Ops = strings.Split(p[i+2:], ",")
		}
		h = append(h, t)
	}
	return
}

var errVeto = errors.New("vetoed")

type c11CB struct {
	id            string
	before, after interface{}
}

// c11Run executes a history on the real store and compares every step with the map model.
func c11Run(k c11Kind, db *badger.DB, veto bool, h []c11Txn, emit func(desc string)) string {
	var st store.Store
	var cbs []c11CB
	onChange := func(id string, before, after interface{}) { cbs = append(cbs, c11CB{id, before, after}) }
	// the veto rejects every change that sets n == 2 (v2) and every delete of a value with n == 1
	vetoes := func(before, after interface{}) bool {
		n := func(v interface{}) int {
			switch x := v.(type) {
			case c11Rec:
				return x.N
			case map[string]interface{}:
				if f, ok := x["n"].(float64); ok {
					return int(f)
				}
			}
			return -1
		}
		if after != nil {
			return n(after) == 2
		}
		return n(before) == 1
	}
	if k.mock {
		ms := mockstore.NewStore()
		if k.newid {
			ms.NewID = func() string { return "b" }
		}
		if !k.nolisten {
			ms.OnChange(onChange)
		}
		st = ms
	} else {
		bs := badgerstore.NewStore(db)
		if k.typed {
			bs.SetType(c11Rec{})
		}
		bs.SetPrefix(k.prefix)
		if !k.nolisten {
			bs.OnChange(onChange)
		}
		if veto && !k.nolisten {
			bs.BeforeChange(func(id string, before, after interface{}) error {
				if vetoes(before, after) {
					return errVeto
				}
				return nil
			})
		}
		st = bs
	}
	model := map[string]interface{}{}
	var wantCBs []c11CB
	var sig []string
	bad := func(step, format string, a ...interface{}) {
		emit(fmt.Sprintf("%s: ", step) + fmt.Sprintf(format, a...))
	}
	for ti, t := range h {
		var rt store.ReadTxn
		var wt store.WriteTxn
		if t.Write {
			wt = st.Write(t.ID)
			rt = wt
		} else {
			rt = st.Read(t.ID)
		}
		if rt.ID() != t.ID {
			bad(fmt.Sprintf("txn %d", ti), "ID()=%q, want %q", rt.ID(), t.ID)
		}
		for oi, op := range t.Ops {
			step := fmt.Sprintf("txn %d op %d %s on %q", ti, oi, op, t.ID)
			cur, exists := model[t.ID]
			switch op {
			case "value":
				v, err := rt.Value()
				if exists {
					if err != nil || !reflect.DeepEqual(v, cur) {
						bad(step, "Value()=%v,%v; the map holds %v", v, err, cur)
					}
					sig = append(sig, "v")
				} else {
					if err == nil || !errors.Is(err, store.ErrNotFound) {
						bad(step, "Value() on a missing id returned (%v, %v), want the not-found error", v, err)
					}
					sig = append(sig, "nf")
				}
			case "exists":
				if got := rt.Exists(); got != exists {
					bad(step, "Exists()=%v, the map says %v", got, exists)
				}
				sig = append(sig, fmt.Sprint(exists))
			case "create1", "create2", "createWrong":
				var v interface{}
				switch op {
				case "create1":
					v = k.val(1)
				case "create2":
					v = k.val(2)
				default:
					v = k.wrong()
				}
				n0 := len(cbs)
				err := wt.Create(v)
				eid := t.ID
				if t.ID == "" && k.newid {
					eid = "b"
					_, exists = model[eid]
				}
				switch {
				case op == "createWrong" && !k.mock:
					if err == nil {
						bad(step, "Create with a value of the wrong type succeeded")
					}
					sig = append(sig, "type")
				case eid == "":
					if err == nil {
						bad(step, "Create on the empty id succeeded although the store does not generate ids")
						// keep the model in line with the store to avoid follow-up noise
						model[t.ID] = v
						wantCBs = append(wantCBs, c11CB{t.ID, nil, v})
					}
					sig = append(sig, "emptyid")
				case exists:
					if err == nil || !errors.Is(err, store.ErrDuplicate) {
						bad(step, "Create on an existing id returned %v, want the duplicate error", err)
					}
					sig = append(sig, "dup")
				case veto && !k.mock && vetoes(nil, v):
					if !errors.Is(err, errVeto) {
						bad(step, "Create vetoed by BeforeChange returned %v", err)
					}
					sig = append(sig, "veto")
				default:
					if err != nil {
						bad(step, "Create failed: %v", err)
					} else {
						model[eid] = v
						wantCBs = append(wantCBs, c11CB{eid, nil, v})
					}
					sig = append(sig, "ok")
				}
				if err != nil && len(cbs) != n0 {
					bad(step, "a failed Create ran %d change callbacks", len(cbs)-n0)
				}
			case "update3", "update2":
				v := k.val(3)
				if op == "update2" {
					v = k.val(2)
				}
				n0 := len(cbs)
				err := wt.Update(v)
				switch {
				case !exists:
					if err == nil || !errors.Is(err, store.ErrNotFound) {
						bad(step, "Update on a missing id returned %v, want the not-found error", err)
					}
					sig = append(sig, "nf")
				case veto && !k.mock && vetoes(cur, v):
					if !errors.Is(err, errVeto) {
						bad(step, "Update vetoed by BeforeChange returned %v", err)
					}
					sig = append(sig, "veto")
				default:
					if err != nil {
						bad(step, "Update failed: %v", err)
					} else {
						wantCBs = append(wantCBs, c11CB{t.ID, cur, v})
						model[t.ID] = v
					}
					sig = append(sig, "ok")
				}
				if err != nil && len(cbs) != n0 {
					bad(step, "a failed Update ran %d change callbacks", len(cbs)-n0)
				}
			case "delete":
				n0 := len(cbs)
				err := wt.Delete()
				switch {
				case !exists:
					if err == nil || !errors.Is(err, store.ErrNotFound) {
						bad(step, "Delete on a missing id returned %v, want the not-found error", err)
					}
					sig = append(sig, "nf")
				case veto && !k.mock && vetoes(cur, nil):
					if !errors.Is(err, errVeto) {
						bad(step, "Delete vetoed by BeforeChange returned %v", err)
					}
					sig = append(sig, "veto")
				default:
					if err != nil {
						bad(step, "Delete failed: %v", err)
					} else {
						wantCBs = append(wantCBs, c11CB{t.ID, cur, nil})
						delete(model, t.ID)
					}
					sig = append(sig, "ok")
				}
				if err != nil && len(cbs) != n0 {
					bad(step, "a failed Delete ran %d change callbacks", len(cbs)-n0)
				}
			}
		}
		if err := rt.Close(); err != nil {
			bad(fmt.Sprintf("txn %d", ti), "Close failed: %v", err)
		}
		var err2 error
		if pn := safe(func() { err2 = rt.Close() }); pn != "" {
			bad(fmt.Sprintf("txn %d", ti), "second Close panicked: %s", pn)
		} else if err2 == nil {
			bad(fmt.Sprintf("txn %d", ti), "second Close did not fail")
		}
	}
	// callbacks: exactly the successful mutations, with the value immediately before and after
	if k.nolisten {
		// nothing registered: only results and content are compared
	} else if len(cbs) != len(wantCBs) {
		emit(fmt.Sprintf("%d change callbacks, want %d", len(cbs), len(wantCBs)))
	} else {
		for i := range cbs {
			if cbs[i].id != wantCBs[i].id || !reflect.DeepEqual(cbs[i].before, wantCBs[i].before) || !reflect.DeepEqual(cbs[i].after, wantCBs[i].after) {
				emit(fmt.Sprintf("change callback %d is (%q, %v, %v), want (%q, %v, %v)", i, cbs[i].id, cbs[i].before, cbs[i].after, wantCBs[i].id, wantCBs[i].before, wantCBs[i].after))
			}
		}
	}
	// final content
	if k.mock {
		ms := st.(*mockstore.Store)
		if len(ms.Resources) != len(model) {
			emit(fmt.Sprintf("final store content %v, the map holds %v", ms.Resources, model))
		}
	} else {
		dump := dbDump(db)
		var keys []string
		for key := range dump {
			keys = append(keys, key)
		}
		sort.Strings(keys)
		var want []string
		for id := range model {
			p := ""
			if k.prefix != "" {
				p = k.prefix + "."
			}
			want = append(want, p+id)
		}
		sort.Strings(want)
		if strings.Join(keys, "\x00") != strings.Join(want, "\x00") {
			emit(fmt.Sprintf("final database keys %q, the map holds %q", keys, want))
		}
		dbClear(db)
	}
	return strings.Join(sig, ",")
}

func c11Histories(maxOps int, f func([]c11Txn) bool) {
	rops := []string{"value", "exists"}
	wops := []string{"create1", "create2", "createWrong", "update3", "update2", "delete", "value", "exists"}
	ids := []string{"a", "b", ""}
	var rec func(h []c11Txn, left int) bool
	rec = func(h []c11Txn, left int) bool {
		if len(h) > 0 && !f(h) {
			return false
		}
		if left == 0 {
			return true
		}
		// extend the last transaction
		if n := len(h); n > 0 {
			last := h[n-1]
			ops := rops
			if last.Write {
				ops = wops
			}
			for _, op := range ops {
				nh := append(append([]c11Txn{}, h[:n-1]...), c11Txn{last.Write, last.ID, append(append([]string{}, last.Ops...), op)})
				if !rec(nh, left-1) {
					return false
				}
			}
		}
		// or open a new one with its first operation
		for _, w := range []bool{true, false} {
			for _, id := range ids {
				ops := rops
				if w {
					ops = wops
				}
				for _, op := range ops {
					nh := append(append([]c11Txn{}, h...), c11Txn{w, id, []string{op}})
					if !rec(nh, left-1) {
						return false
					}
				}
			}
		}
		return true
	}
	rec(nil, maxOps)
}

func runC11(c *seqCtx) {
	maxOps := 4
	if c.thorough {
		maxOps = 5
	}
	db := openDB()
	defer cleanupDBs()
	defer db.Close()
	for _, k := range c11Kinds {
		for _, veto := range []bool{false, true} {
			if veto && (k.mock || k.nolisten) {
				continue
			}
			mo := maxOps
			if !k.mock {
				mo = maxOps - 1 // a BadgerDB history costs about a millisecond: one operation less than on the mock store
			}
			c11Histories(mo, func(h []c11Txn) bool {
				if !c.Mine() {
					return true
				}
				hs := c11HistString(k.name, veto, h)
				sig := c11Run(k, db, veto, h, func(desc string) { c.Fail("C11", desc+" ["+hs+"]", hs) })
				c.Eval(hs + "=>" + sig)
				c.out.Transitions++
				return !c.Stopped()
			})
			if c.Stopped() {
				return
			}
		}
	}
	c.Sample("badger-typed-prefix|false|W(a):create1,value;W(a):update3,delete;R(a):exists")
}

func replayC11(input string) []string {
	kind, veto, h := parseC11(input)
	var k c11Kind
	for _, x := range c11Kinds {
		if x.name == kind {
			k = x
		}
	}
	db := openDB()
	defer cleanupDBs()
	defer db.Close()
	var out []string
	c11Run(k, db, veto, h, func(desc string) { out = append(out, "C11: "+desc) })
	return out
}

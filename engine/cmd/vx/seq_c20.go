package main

import (
	"encoding/json"
	"fmt"
	"reflect"
	"strings"

	"github.com/dgraph-io/badger"
	res "github.com/jirenius/go-res"
	"github.com/jirenius/go-res/middleware"
	"github.com/jirenius/go-res/middleware/resbadger"

	"verif/envnats"
	"verif/scen"
	"verif/vsched"
)

func init() {
	seqChecks["c20"] = &seqCheck{run: runC20, replay: replayC20,
		rule: "every sequence of <=4 (5 thorough) events over {change a=1, change a=2 b=x, change delete a, (untyped models: change c=null, change delete c; with a default: change delete d, a property of the default,) add v@0, add v@1, add v@5, remove 0, remove 5, create, delete} x package {middleware, resbadger} x type {model, collection} x value type {untyped, struct} x default {none, set} x index set {none, one}; after every event the get response and Value() are compared with the fold, listener old values / deleted data with the previous stored value, and at the end the database is closed, reopened and compared again; distinct = distinct (configuration, sequence, outcome vector)"}
}

type c20Cfg struct {
	Pkg     string // middleware | resbadger
	Type    string // model | collection
	Typed   bool
	Default bool
	Index   bool
}

func (c c20Cfg) String() string {
	return fmt.Sprintf("%s/%s/typed=%v/default=%v/index=%v", c.Pkg, c.Type, c.Typed, c.Default, c.Index)
}

type c20Model struct {
	A int    `json:"a,omitempty"`
	B string `json:"b,omitempty"`
	D string `json:"d,omitempty"`
}

var c20ModelEvents = []string{"chA1", "chA2Bx", "chDelA", "create", "delete"}
var c20CollEvents = []string{"add0", "add1", "add5", "rem0", "rem5", "create", "delete"}

type c20State struct {
	exists bool
	m      map[string]interface{}
	c      []interface{}
}

func (s c20State) json(model bool) string {
	if !s.exists {
		return "<missing>"
	}
	var b []byte
	if model {
		b, _ = json.Marshal(s.m)
	} else {
		if s.c == nil {
			return "[]"
		}
		b, _ = json.Marshal(s.c)
	}
	return string(b)
}

// c20Fold applies one event to the reference state; applied=false means the event cannot be applied
// (nothing published, storage unchanged); old = what listeners must be handed.
func c20Fold(cfg c20Cfg, s c20State, ev string) (n c20State, applied bool, old string, unspecified bool) {
	def := func() c20State {
		if cfg.Type == "model" {
			return c20State{exists: true, m: map[string]interface{}{"d": "dflt"}}
		}
		return c20State{exists: true, c: []interface{}{"dflt"}}
	}
	cur := s
	virtual := false
	if !s.exists && cfg.Default {
		cur = def()
		virtual = true
	}
	copyM := func(m map[string]interface{}) map[string]interface{} {
		o := map[string]interface{}{}
		for k, v := range m {
			o[k] = v
		}
		return o
	}
	switch ev {
	case "chA1", "chA2Bx", "chDelA", "chCnull", "chDelC", "chDelD":
		if !cur.exists {
			return s, false, "", false
		}
		m := copyM(cur.m)
		rev := map[string]interface{}{}
		set := func(k string, v interface{}) {
			if ov, ok := m[k]; ok {
				if !reflect.DeepEqual(ov, v) {
					rev[k] = ov
					m[k] = v
				}
			} else {
				rev[k] = map[string]string{"action": "delete"}
				m[k] = v
			}
		}
		switch ev {
		case "chA1":
			set("a", 1.0)
		case "chA2Bx":
			set("a", 2.0)
			set("b", "x")
		case "chDelA":
			if ov, ok := m["a"]; ok {
				rev["a"] = ov
				delete(m, "a")
			}
		case "chCnull":
			set("c", nil)
		case "chDelC":
			if ov, ok := m["c"]; ok {
				rev["c"] = ov
				delete(m, "c")
			}
		case "chDelD":
			if ov, ok := m["d"]; ok {
				rev["d"] = ov
				delete(m, "d")
			}
		}
		if len(rev) == 0 {
			return s, false, "", false
		}
		b, _ := json.Marshal(rev)
		return c20State{exists: true, m: m}, true, string(b), false
	case "add0", "add1", "add5":
		idx := map[string]int{"add0": 0, "add1": 1, "add5": 5}[ev]
		c := cur.c
		if !cur.exists {
			c = nil // an add on a missing collection starts from the empty collection
		}
		if idx > len(c) {
			return s, false, "", false
		}
		nc := append([]interface{}{}, c[:idx]...)
		nc = append(nc, "v")
		nc = append(nc, c[idx:]...)
		return c20State{exists: true, c: nc}, true, "", false
	case "rem0", "rem5":
		idx := map[string]int{"rem0": 0, "rem5": 5}[ev]
		if !cur.exists || idx >= len(cur.c) {
			return s, false, "", false
		}
		nc := append(append([]interface{}{}, cur.c[:idx]...), cur.c[idx+1:]...)
		return c20State{exists: true, c: nc}, true, "", false
	case "create":
		if s.exists || cfg.Default {
			return s, false, "", false
		}
		if cfg.Type == "model" {
			return c20State{exists: true, m: map[string]interface{}{"a": 7.0, "b": "c"}}, true, "", false
		}
		return c20State{exists: true, c: []interface{}{"c1", "c2"}}, true, "", false
	case "delete":
		if !s.exists {
			// deleting what is not stored: not among the events the property calls inapplicable
			return s, false, "", true
		}
		_ = virtual
		return c20State{}, true, s.json(cfg.Type == "model"), false
	}
	panic(ev)
}

type c20Obs struct {
	pubs      []string
	listeners []string
	failed    bool
	get       string
	value     string
}

func c20Events(cfg c20Cfg) []string {
	if cfg.Type == "model" {
		evs := append([]string{}, c20ModelEvents...)
		if cfg.Default {
			// deleting a property that only the default value has
			evs = append(evs, "chDelD")
		}
		if !cfg.Typed {
			// untyped models may hold a property whose value is JSON null
			evs = append(evs, "chCnull", "chDelC")
		}
		return evs
	}
	return c20CollEvents
}

func norm(j string) string {
	var v interface{}
	if json.Unmarshal([]byte(j), &v) != nil {
		return j
	}
	b, _ := json.Marshal(v)
	return string(b)
}

// c20Run runs a sequence on a fresh resource name; db is shared.
func c20Run(db **badger.DB, reopen func(), cfg c20Cfg, seq []string, rname string, emit func(desc string)) string {
	isModel := cfg.Type == "model"
	var sig []string
	ref := c20State{}
	build := func() (*res.Service, *envnats.Conn) {
		conn := envnats.New()
		conn.Quiet = true
		conn.KeepPubs = true
		s := res.NewService("t")
		s.SetLogger(nil)
		s.SetWorkerCount(1)
		var opts []res.Option
		if cfg.Pkg == "middleware" {
			o := middleware.BadgerDB{DB: *db}
			if isModel {
				opts = append(opts, res.Model)
				if cfg.Typed {
					o = o.WithType(c20Model{})
				}
				if cfg.Default {
					if cfg.Typed {
						o = o.WithDefault(c20Model{D: "dflt"})
					} else {
						o = o.WithDefault(map[string]interface{}{"d": "dflt"})
					}
				}
			} else {
				opts = append(opts, res.Collection)
				if cfg.Default {
					o = o.WithDefault([]interface{}{"dflt"})
				}
			}
			opts = append(opts, o)
		} else {
			bd := resbadger.BadgerDB{DB: *db}
			if isModel {
				m := bd.Model()
				if cfg.Typed {
					m = m.WithType(c20Model{})
				}
				if cfg.Default {
					if cfg.Typed {
						m = m.WithDefault(c20Model{D: "dflt"})
					} else {
						m = m.WithDefault(map[string]interface{}{"d": "dflt"})
					}
				}
				if cfg.Index {
					m = m.WithIndexSet(&resbadger.IndexSet{Indexes: []resbadger.Index{{Name: "idxb", Key: func(v interface{}) []byte {
						switch x := v.(type) {
						case c20Model:
							return []byte(x.B)
						case map[string]interface{}:
							s, _ := x["b"].(string)
							return []byte(s)
						}
						return nil
					}}}})
				}
				opts = append(opts, m)
			} else {
				c := bd.Collection()
				if cfg.Default {
					c = c.WithDefault([]interface{}{"dflt"})
				}
				opts = append(opts, c)
			}
		}
		s.Handle("r.$id", opts...)
		return s, conn
	}
	var obsLog []string
	r := scen.RunSeq(func() {
		s, conn := build()
		s.AddListener("r.$id", func(e *res.Event) {
			d := e.Name
			switch e.Name {
			case "change":
				d += " old=" + norm(jsonOf(e.OldValues))
			case "delete":
				d += " data=" + norm(jsonOf(e.Data))
			}
			obsLog = append(obsLog, "listener "+d)
		})
		conn.OnPub = func(m envnats.Msg) {
			if strings.HasPrefix(m.Subject, "event.") {
				obsLog = append(obsLog, "pub "+m.Subject[strings.LastIndexByte(m.Subject, '.')+1:])
			}
		}
		served := make(chan struct{}, 1)
		s.SetOnServe(func(*res.Service) { vsched.Send(served, struct{}{}) })
		vsched.Go("serve", func() { s.Serve(conn) })
		vsched.Recv(served)
		get := func() string {
			n0 := len(conn.Pubs)
			conn.Inject("get."+rname, "GET", nil)
			vsched.AwaitQuiescence()
			for _, m := range conn.Pubs[n0:] {
				if m.Subject == "GET" {
					return m.Data
				}
			}
			return ""
		}
		check := func(step string) {
			want := ref
			if !ref.exists && cfg.Default {
				if isModel {
					want = c20State{exists: true, m: map[string]interface{}{"d": "dflt"}}
				} else {
					want = c20State{exists: true, c: []interface{}{"dflt"}}
				}
			}
			g := get()
			var resp struct {
				Result *struct {
					Model      json.RawMessage `json:"model"`
					Collection json.RawMessage `json:"collection"`
				} `json:"result"`
				Error *struct{ Code string } `json:"error"`
			}
			json.Unmarshal([]byte(g), &resp)
			got := "<missing>"
			if resp.Result != nil {
				if isModel {
					got = norm(string(resp.Result.Model))
				} else {
					got = norm(string(resp.Result.Collection))
				}
			} else if resp.Error == nil || resp.Error.Code != "system.notFound" {
				got = "error:" + g
			}
			if got != want.json(isModel) {
				emit(fmt.Sprintf("%s: get serves %s, the fold of the applied events is %s", step, got, want.json(isModel)))
			}
			// Value() inside a callback
			var val string
			done := make(chan struct{}, 1)
			s.With(rname, func(r res.Resource) {
				v, err := r.Value()
				if err != nil {
					val = "<missing>"
					if e, ok := err.(*res.Error); !ok || e.Code != "system.notFound" {
						val = "error:" + err.Error()
					}
				} else {
					val = norm(jsonOf(v))
				}
				vsched.Send(done, struct{}{})
			})
			vsched.Recv(done)
			wantV := want.json(isModel)
			if val != wantV {
				emit(fmt.Sprintf("%s: Value() gives %s, the fold of the applied events is %s", step, val, wantV))
			}
		}
		for i, ev := range seq {
			step := fmt.Sprintf("event %d %s", i, ev)
			next, applied, old, unspec := c20Fold(cfg, ref, ev)
			n0 := len(obsLog)
			done := make(chan struct{}, 1)
			failed := false
			s.With(rname, func(r res.Resource) {
				defer func() {
					if p := recover(); p != nil {
						failed = true
					}
					vsched.Send(done, struct{}{})
				}()
				switch ev {
				case "chA1":
					r.ChangeEvent(map[string]interface{}{"a": 1.0})
				case "chA2Bx":
					r.ChangeEvent(map[string]interface{}{"a": 2.0, "b": "x"})
				case "chDelA":
					r.ChangeEvent(map[string]interface{}{"a": res.DeleteAction})
				case "chCnull":
					r.ChangeEvent(map[string]interface{}{"c": nil})
				case "chDelC":
					r.ChangeEvent(map[string]interface{}{"c": res.DeleteAction})
				case "chDelD":
					r.ChangeEvent(map[string]interface{}{"d": res.DeleteAction})
				case "add0":
					r.AddEvent("v", 0)
				case "add1":
					r.AddEvent("v", 1)
				case "add5":
					r.AddEvent("v", 5)
				case "rem0":
					r.RemoveEvent(0)
				case "rem5":
					r.RemoveEvent(5)
				case "create":
					if isModel {
						if cfg.Typed {
							r.CreateEvent(c20Model{A: 7, B: "c"})
						} else {
							r.CreateEvent(map[string]interface{}{"a": 7.0, "b": "c"})
						}
					} else {
						r.CreateEvent([]interface{}{"c1", "c2"})
					}
				case "delete":
					r.DeleteEvent()
				}
			})
			vsched.Recv(done)
			vsched.AwaitQuiescence()
			got := obsLog[n0:]
			if unspec {
				// only: storage stays as it was
				ref = next
				check(step)
				sig = append(sig, "unspec")
				continue
			}
			if !applied {
				if len(got) != 0 {
					emit(fmt.Sprintf("%s cannot be applied to %s but produced %v", step, ref.json(isModel), got))
				}
				sig = append(sig, "rejected")
			} else {
				name := map[string]string{"chA1": "change", "chA2Bx": "change", "chDelA": "change", "chCnull": "change", "chDelC": "change", "chDelD": "change", "add0": "add", "add1": "add", "add5": "add", "rem0": "remove", "rem5": "remove", "create": "create", "delete": "delete"}[ev]
				wantL := "listener " + name
				if name == "change" {
					wantL += " old=" + norm(old)
				}
				if name == "delete" {
					wantL += " data=" + norm(old)
				}
				if failed || len(got) != 2 || got[0] != "pub "+name || got[1] != wantL {
					emit(fmt.Sprintf("%s applied to %s: observed %v (failed=%v), want [pub %s, %s]", step, ref.json(isModel), got, failed, name, wantL))
				}
				sig = append(sig, "applied")
			}
			ref = next
			check(step)
		}
		// close and reopen the database under a fresh service
		done := make(chan struct{}, 1)
		vsched.Go("stop", func() { s.Shutdown(); vsched.Send(done, struct{}{}) })
		vsched.Recv(done)
	})
	for _, p := range r.Panics {
		emit("thread panicked: " + firstLineOf(p))
	}
	if r.Deadlock {
		emit("deadlock")
	}
	// reopen and compare
	before := dbDump(*db)
	reopen()
	after := dbDump(*db)
	if !reflect.DeepEqual(before, after) {
		emit(fmt.Sprintf("database content differs after reopening: %v vs %v", before, after))
	}
	want := "<missing>"
	if ref.exists {
		want = ref.json(isModel)
	}
	gotRaw, ok := after[rname]
	got := "<missing>"
	if ok {
		got = norm(gotRaw)
	}
	if got != want {
		emit(fmt.Sprintf("after reopening the database holds %s for %s, the fold is %s", got, rname, want))
	}
	return strings.Join(sig, ",")
}

func runC20(c *seqCtx) {
	maxLen := 4
	if c.thorough {
		maxLen = 5
	}
	base := ""
	{
		d := openDB()
		base = tmpDirs[len(tmpDirs)-1]
		d.Close()
	}
	open := func() *badger.DB {
		opts := badger.DefaultOptions(base)
		opts.Logger = nil
		opts.SyncWrites = false
		opts.Truncate = true
		db, err := badger.Open(opts)
		if err != nil {
			fail("badger open: %v", err)
		}
		return db
	}
	db := open()
	defer func() { db.Close() }()
	reopenEvery := 0
	reopen := func() {
		reopenEvery++
		if reopenEvery%25 != 0 {
			return // reopening costs ~20 ms: every 25th sequence closes and reopens the database
		}
		db.Close()
		db = open()
	}
	var cfgs []c20Cfg
	for _, pkg := range []string{"middleware", "resbadger"} {
		for _, ty := range []string{"model", "collection"} {
			for _, typed := range []bool{false, true} {
				if typed && ty == "collection" {
					continue
				}
				for _, def := range []bool{false, true} {
					for _, idx := range []bool{false, true} {
						if idx && (pkg != "resbadger" || ty != "model") {
							continue
						}
						cfgs = append(cfgs, c20Cfg{pkg, ty, typed, def, idx})
					}
				}
			}
		}
	}
	n := 0
	for _, cfg := range cfgs {
		evs := c20Events(cfg)
		var rec func(cur []string)
		rec = func(cur []string) {
			if c.Stopped() {
				return
			}
			if len(cur) > 0 && c.Mine() {
				n++
				rname := fmt.Sprintf("t.r.%d", n)
				in := cfg.String() + "|" + strings.Join(cur, ",")
				sig := c20Run(&db, reopen, cfg, cur, rname, func(desc string) { c.Fail("C20", desc+" ["+in+"]", in) })
				c.Eval(in + "=>" + sig)
				c.out.Transitions += int64(len(cur))
			}
			if len(cur) == maxLen {
				return
			}
			for _, e := range evs {
				rec(append(append([]string{}, cur...), e))
			}
		}
		rec(nil)
	}
	c.Sample("resbadger/model/typed=true/default=false/index=true|create,chA2Bx,delete")
}

func replayC20(input string) []string {
	f := strings.Split(input, "|")
	var cfg c20Cfg
	p := strings.Split(f[0], "/")
	cfg.Pkg, cfg.Type = p[0], p[1]
	cfg.Typed = p[2] == "typed=true"
	cfg.Default = p[3] == "default=true"
	cfg.Index = p[4] == "index=true"
	db := openDB()
	defer db.Close()
	var out []string
	c20Run(&db, func() {}, cfg, strings.Split(f[1], ","), "t.r.1", func(desc string) { out = append(out, "C20: "+desc) })
	return out
}

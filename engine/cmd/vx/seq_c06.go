package main

import (
	"fmt"
	"strings"

	res "github.com/jirenius/go-res"

	"verif/ref"
)

func init() {
	seqChecks["c06"] = &seqCheck{run: runC06, replay: replayC06,
		rule: "every ordered set of <=2 (quick) / <=3 (thorough) valid patterns of <=3 tokens over {a,b,$x,$y,*,>} x 8 arrangements across sub-muxes (flat, mount before/after, through the parent, route, path prefix, depth 2, rooted mux) x 4 group templates x every name of <=4 tokens over {a,b,c} + malformed names; plus patterns with literal tokens ax / ay beside the tags $x / $y; distinct = distinct (pattern set, arrangement, group, name, reference outcome) tuples"}
}

var c06Arr = []string{"flat", "mount-before", "mount-after", "mount-parent", "route", "path", "depth2", "rooted", "rooted2"}
var c06Grp = []string{"none", "literal", "tagged", "parallel"}

func c06Patterns() []string {
	toks := []string{"a", "b", "$x", "$y", "*", ">"}
	var out []string
	var rec func(cur []string)
	rec = func(cur []string) {
		if len(cur) > 0 {
			p := strings.Join(cur, ".")
			if v, u := ref.PatternValid(p); v && !u {
				out = append(out, p)
			}
		}
		if len(cur) == 3 {
			return
		}
		for _, t := range toks {
			rec(append(append([]string{}, cur...), t))
		}
	}
	rec(nil)
	return out
}

func c06Names() (good, bad []string) {
	var rec func(cur []string)
	rec = func(cur []string) {
		if len(cur) > 0 {
			good = append(good, strings.Join(cur, "."))
		}
		if len(cur) == 4 {
			return
		}
		for _, t := range []string{"a", "b", "c"} {
			rec(append(append([]string{}, cur...), t))
		}
	}
	rec(nil)
	bad = []string{"", ".", "..", "a.", ".a", "a..b", "a.b.", ".a.b", "a...", "*", ">", "a.*", "a.>", "$x", "a.$x", "a.b.c.d.e.f.g", "a b", "a.\x00", "s", "s.", "s..a", "?", "a?b", "a.b?", " ", "a. ", "\t", "a.b.c.", "....", "a.a.a.a.a", "b.", ">.a", "*.a", "a.*.b", "$", "$.a", "a.$", "é", "a.é", "s.a."}
	return
}

func normPattern(p string) string {
	t := strings.Split(p, ".")
	for i, x := range t {
		if x[0] == '$' {
			t[i] = "*"
		}
	}
	return strings.Join(t, ".")
}

func firstTag(p string) string {
	for _, t := range strings.Split(p, ".") {
		if t[0] == '$' {
			return t[1:]
		}
	}
	return ""
}

// specificity key: lower is more specific, compared token-wise from the left
func specKey(p string) string {
	var b strings.Builder
	for _, t := range strings.Split(p, ".") {
		switch {
		case t == ">":
			b.WriteByte('3')
		case t == "*" || t[0] == '$':
			b.WriteByte('2')
		default:
			b.WriteByte('1')
		}
	}
	return b.String()
}

type c06Case struct {
	pats []string
	arr  string
	grp  string
}

func (c c06Case) String() string { return strings.Join(c.pats, ",") + "|" + c.arr + "|" + c.grp }

func parseC06Case(s string) c06Case {
	f := strings.Split(s, "|")
	return c06Case{pats: strings.Split(f[0], ","), arr: f[1], grp: f[2]}
}

// build registers the patterns on a fresh mux as the arrangement says; returns the root mux, the name prefix and a panic message.
func (c c06Case) build() (root *res.Mux, prefix string, panicked string) {
	panicked = safe(func() {
		root = res.NewMux("")
		if c.arr == "rooted" {
			root = res.NewMux("s")
			prefix = "s."
		}
		if c.arr == "rooted2" {
			root = res.NewMux("s.t")
			prefix = "s.t."
		}
		opts := func(i int, rel string) []res.Option {
			o := []res.Option{res.Call(fmt.Sprintf("h%d", i), func(res.CallRequest) {})}
			if i == 0 {
				switch c.grp {
				case "literal":
					o = append(o, res.Group("g"))
				case "tagged":
					if t := firstTag(c.pats[0]); t != "" {
						o = append(o, res.Group("p.${"+t+"}"))
					}
				case "parallel":
					o = append(o, res.Parallel(true))
				}
				o = append(o, res.OptionFunc(func(h *res.Handler) {
					h.Listeners = map[string]func(*res.Event){rel: func(*res.Event) {}}
				}))
			}
			return o
		}
		// patterns whose first token is the literal "a" (and have more tokens) live in a sub-mux
		inSub := func(p string) bool {
			return c.arr != "flat" && c.arr != "rooted" && c.arr != "rooted2" && strings.HasPrefix(p, "a.")
		}
		inSub2 := func(p string) bool { return c.arr == "depth2" && strings.HasPrefix(p, "a.b.") }
		var sub, sub2 *res.Mux
		regSub := func() {
			for i, p := range c.pats {
				if inSub2(p) {
					rel := strings.TrimPrefix(p, "a.b.")
					sub2.Handle(rel, opts(i, rel)...)
				} else if inSub(p) {
					rel := strings.TrimPrefix(p, "a.")
					sub.Handle(rel, opts(i, rel)...)
				}
			}
		}
		any := false
		for _, p := range c.pats {
			if inSub(p) {
				any = true
			}
		}
		switch c.arr {
		case "mount-before", "depth2":
			if any {
				sub = res.NewMux("")
				sub2 = res.NewMux("")
				if c.arr == "depth2" {
					has2 := false
					for _, p := range c.pats {
						if inSub2(p) {
							has2 = true
						}
					}
					if has2 {
						// nested mount first, so that "b" is a mount point inside sub
						sub.Mount("b", sub2)
					}
				}
				regSub()
				root.Mount("a", sub)
			}
		case "mount-after":
			if any {
				sub = res.NewMux("")
				root.Mount("a", sub)
				regSub()
			}
		case "mount-parent":
			if any {
				sub = res.NewMux("")
				root.Mount("a", sub)
				for i, p := range c.pats {
					if inSub(p) {
						root.Handle(p, opts(i, p)...)
					}
				}
			}
		case "route":
			if any {
				root.Route("a", func(m *res.Mux) {
					sub = m
					regSub()
				})
			}
		case "path":
			if any {
				sub = res.NewMux("a")
				regSub()
				root.Mount("", sub)
			}
		}
		for i, p := range c.pats {
			if !inSub(p) {
				root.Handle(p, opts(i, p)...)
			}
		}
	})
	return
}

func c06Check(c c06Case, names, bad []string, emit func(desc, input string), count func(string)) {
	in := c.String()
	// reference: conflicts
	conflict := false
	for i := range c.pats {
		for j := range c.pats {
			if i < j && normPattern(c.pats[i]) == normPattern(c.pats[j]) {
				conflict = true
			}
		}
	}
	root, prefix, pn := c.build()
	if conflict {
		if pn == "" {
			emit(fmt.Sprintf("conflicting patterns %v (%s) were accepted at registration", c.pats, c.arr), in)
		}
		count(in + "|conflict")
		return
	}
	if pn != "" {
		emit(fmt.Sprintf("registering valid, non-conflicting patterns %v (%s, group %s) panicked: %s", c.pats, c.arr, c.grp, pn), in)
		return
	}
	for _, n := range names {
		// reference: most specific matching pattern
		best := -1
		var bestVals map[string]string
		for i, p := range c.pats {
			if vals, ok := ref.Match(p, n); ok {
				if best < 0 || specKey(p) < specKey(c.pats[best]) {
					best, bestVals = i, vals
				}
			}
		}
		full := prefix + n
		var mh *res.Match
		if pn := safe(func() { mh = root.GetHandler(full) }); pn != "" {
			emit(fmt.Sprintf("GetHandler(%q) panicked with patterns %v (%s, group %s): %s", full, c.pats, c.arr, c.grp, pn), in+"|"+n)
			continue
		}
		if best < 0 {
			if mh != nil {
				emit(fmt.Sprintf("GetHandler(%q) returned a handler although no pattern of %v matches (%s)", full, c.pats, c.arr), in+"|"+n)
			}
			count(in + "|" + n + "|none")
			continue
		}
		if mh == nil {
			emit(fmt.Sprintf("GetHandler(%q) found nothing, but pattern %q of %v matches (%s)", full, c.pats[best], c.pats, c.arr), in+"|"+n)
			continue
		}
		if _, ok := mh.Handler.Call[fmt.Sprintf("h%d", best)]; !ok {
			emit(fmt.Sprintf("GetHandler(%q) returned the wrong handler; most specific of %v is %q (%s)", full, c.pats, c.pats[best], c.arr), in+"|"+n)
			continue
		}
		if len(mh.Params) != len(bestVals) {
			emit(fmt.Sprintf("GetHandler(%q).Params=%v, want %v (pattern %q, %s)", full, mh.Params, bestVals, c.pats[best], c.arr), in+"|"+n)
		} else {
			for k, v := range bestVals {
				if mh.Params[k] != v {
					emit(fmt.Sprintf("GetHandler(%q).Params=%v, want %v (pattern %q, %s)", full, mh.Params, bestVals, c.pats[best], c.arr), in+"|"+n)
					break
				}
			}
		}
		wantGroup := full
		wantListeners := 0
		if best == 0 {
			wantListeners = 1
			switch c.grp {
			case "literal":
				wantGroup = "g"
			case "tagged":
				if t := firstTag(c.pats[0]); t != "" {
					wantGroup = "p." + bestVals[t]
				}
			case "parallel":
				wantGroup = ""
			}
		}
		if mh.Group != wantGroup {
			emit(fmt.Sprintf("GetHandler(%q).Group=%q, want %q (patterns %v, %s, group %s)", full, mh.Group, wantGroup, c.pats, c.arr, c.grp), in+"|"+n)
		}
		if len(mh.Listeners) != wantListeners {
			emit(fmt.Sprintf("GetHandler(%q) returned %d listeners, want %d (patterns %v, %s)", full, len(mh.Listeners), wantListeners, c.pats, c.arr), in+"|"+n)
		}
		count(in + "|" + n + "|" + fmt.Sprint(best))
	}
	if prefix != "" {
		// near misses of the mux path: only names equal to the path or continuing it after a dot belong to the mux
		base := strings.TrimSuffix(prefix, ".")
		for _, n := range names {
			for _, nm := range []string{n, base + n, base + "x." + n, "x" + prefix + n, base[:len(base)-1] + "." + n, base + ".." + n} {
				var mh *res.Match
				if pn := safe(func() { mh = root.GetHandler(nm) }); pn != "" {
					emit(fmt.Sprintf("GetHandler(%q) panicked on a mux with path %q: %s", nm, base, pn), in+"|"+n)
				} else if mh != nil && !strings.HasPrefix(nm, prefix) {
					emit(fmt.Sprintf("GetHandler(%q) returned a handler on a mux with path %q (patterns %v)", nm, base, c.pats), in+"|"+n)
				}
			}
		}
	}
	for _, n := range bad {
		if pn := safe(func() { root.GetHandler(n); root.GetHandler(prefix + n) }); pn != "" {
			emit(fmt.Sprintf("GetHandler(%q) panicked with patterns %v (%s): %s", n, c.pats, c.arr, pn), in+"|"+n)
		}
	}
}

func runC06(c *seqCtx) {
	pats := c06Patterns()
	names, bad := c06Names()
	emit := func(desc, input string) { c.Fail("C06", desc, input) }
	c.Extra("patterns", int64(len(pats)))
	c.Extra("names", int64(len(names)+len(bad)))
	run := func(set []string) bool {
		for _, arr := range c06Arr {
			for _, grp := range c06Grp {
				if grp == "tagged" && firstTag(set[0]) == "" {
					continue
				}
				if !c.Mine() {
					continue
				}
				cs := c06Case{pats: set, arr: arr, grp: grp}
				n0 := c.out.Evaluations
				c06Check(cs, names, bad, emit, func(k string) { c.Eval(k) })
				c.out.Evaluations += int64(len(bad))
				_ = n0
				if c.Stopped() {
					return false
				}
			}
		}
		return true
	}
	for _, p := range pats {
		if !run([]string{p}) {
			return
		}
	}
	c.Sample("patterns [a.$x.b] arrangement mount-parent group tagged x all names")
	// literal tokens that look like a tag name with one more character in front (ax beside $x): patterns of
	// <= 3 tokens over {ax, ay, $x, $y}, alone and in pairs, against names over {ax, ay, b}
	{
		var lp, ln []string
		var rec func(cur []string, toks []string, max int, out *[]string, pattern bool)
		rec = func(cur []string, toks []string, max int, out *[]string, pattern bool) {
			if len(cur) > 0 {
				p := strings.Join(cur, ".")
				if !pattern {
					*out = append(*out, p)
				} else if v, u := ref.PatternValid(p); v && !u {
					*out = append(*out, p)
				}
			}
			if len(cur) == max {
				return
			}
			for _, t := range toks {
				rec(append(append([]string{}, cur...), t), toks, max, out, pattern)
			}
		}
		rec(nil, []string{"ax", "ay", "$x", "$y"}, 3, &lp, true)
		rec(nil, []string{"ax", "ay", "b"}, 3, &ln, false)
		saved := names
		names = ln
		for _, p := range lp {
			if !run([]string{p}) {
				return
			}
		}
		for _, p := range lp {
			for _, q := range lp {
				if strings.Count(p, ".") <= 1 && strings.Count(q, ".") <= 1 && !run([]string{p, q}) {
					return
				}
			}
		}
		names = saved
	}
	for _, p := range pats {
		for _, q := range pats {
			if !run([]string{p, q}) {
				return
			}
		}
	}
	c.Sample("patterns [a.$x a.b] arrangement depth2 group none x all names")
	if c.thorough {
		// all ordered triples over the patterns of <= 2 tokens, plus one shard of triples with a 3-token pattern
		var small []string
		for _, p := range pats {
			if strings.Count(p, ".") <= 1 {
				small = append(small, p)
			}
		}
		for _, p := range small {
			for _, q := range small {
				for _, r := range pats {
					if !run([]string{p, q, r}) {
						return
					}
				}
			}
		}
	}
}

func replayC06(input string) []string {
	f := strings.Split(input, "|")
	cs := parseC06Case(strings.Join(f[:3], "|"))
	names, bad := c06Names()
	if len(f) > 3 {
		names, bad = []string{f[3]}, []string{f[3]}
	}
	var out []string
	c06Check(cs, names, bad, func(desc, _ string) { out = append(out, "C06: "+desc) }, func(string) {})
	return out
}

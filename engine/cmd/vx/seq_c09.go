package main

import (
	"encoding/json"
	"fmt"
	"sort"
	"strings"

	res "github.com/jirenius/go-res"

	"verif/envnats"
	"verif/ref"
	"verif/scen"
	"verif/vsched"
)

func init() {
	seqChecks["c09"] = &seqCheck{run: runC09, replay: replayC09,
		rule: "service name {'', s, s.t} x ownership {unset with every subset of handler kinds {Get,Call,Auth,New,Access}; explicit lists of <=2 (3 thorough) entries from 8 patterns, for resources, access, both, or one explicit and the other defaulted by the handler kinds} x queue group {default, none}; each configuration is served twice (Shutdown, second Serve on a fresh connection: same subscriptions and reset); x queue group {default, none}; for each accepted configuration every request subject over names of <=3 tokens from {s,t,a,b,o} is matched against the recorded subscriptions with a reference NATS matcher; distinct = distinct (configuration, subscription set, reset payload)"}
}

var c09Pool = []string{"s", "s.>", "s.a", "s.a.*", "s.*", "s.*.b", ">", "o.>"}

type c09Case struct {
	Name     string
	Unset    bool
	Kinds    int // handler kinds bitmask (Get, Call, Auth, New, Access) when Unset
	Res, Acc []string
	Queue    string // "default" | "none"
	Root     bool   // the only handler is registered on the empty pattern (the service's own name)
	Mixed    string // "res": resources explicit, access left nil (defaulted by the handler kinds); "acc": the reverse
	Nested   bool   // the only handler sits in a sub mux that is routed onto a mux which is itself already mounted
}

func (c c09Case) String() string {
	b, _ := json.Marshal(c)
	return string(b)
}

func c09Names() []string {
	toks := []string{"s", "t", "a", "b", "o"}
	var out []string
	for _, x := range toks {
		out = append(out, x)
		for _, y := range toks {
			out = append(out, x+"."+y)
			for _, z := range toks {
				out = append(out, x+"."+y+"."+z)
			}
		}
	}
	return out
}

type c09Obs struct {
	subs     []string // subjects
	queues   []string
	badSubs  []string
	resets   []string
	serveErr bool
	// second start
	subs2      []string
	resets2    []string
	restartErr bool
}

func c09Run(c c09Case) (o c09Obs, problems []string) {
	r := scen.RunSeq(func() {
		conn := envnats.New()
		conn.KeepPubs = true
		s := res.NewService(c.Name)
		s.SetLogger(nil)
		s.SetWorkerCount(1)
		var opts []res.Option
		k := c.Kinds
		if !c.Unset && c.Mixed == "" {
			k = 1
		}
		if k&1 != 0 {
			opts = append(opts, res.GetModel(func(r res.ModelRequest) { r.NotFound() }))
		}
		if k&2 != 0 {
			opts = append(opts, res.Call("m", func(r res.CallRequest) { r.OK(nil) }))
		}
		if k&4 != 0 {
			opts = append(opts, res.Auth("m", func(r res.AuthRequest) { r.OK(nil) }))
		}
		if k&8 != 0 {
			opts = append(opts, res.New(func(r res.NewRequest) { r.NotFound() }))
		}
		if k&16 != 0 {
			opts = append(opts, res.Access(res.AccessGranted))
		}
		switch {
		case c.Root:
			s.Handle("", opts...)
		case c.Nested:
			x := s.Route("x", nil)
			x.Route("y", func(m *res.Mux) { m.Handle("a", opts...) })
		default:
			s.Handle("a", opts...)
		}
		switch {
		case c.Mixed == "res":
			s.SetOwnedResources(c.Res, nil)
		case c.Mixed == "acc":
			s.SetOwnedResources(nil, c.Acc)
		case !c.Unset:
			s.SetOwnedResources(c.Res, c.Acc)
		}
		if c.Queue == "none" {
			s.SetQueueGroup("")
		}
		served := make(chan bool, 2)
		s.SetOnServe(func(*res.Service) { vsched.Send(served, true) })
		vsched.Go("serve", func() {
			s.Serve(conn)
			vsched.Send(served, false)
		})
		up := vsched.Recv(served)
		if !up {
			o.serveErr = true
			return
		}
		vsched.AwaitQuiescence()
		if c.Unset {
			// "nil (default)": documented as the default ownership, also when set again on the running service
			s.SetOwnedResources(nil, nil)
		}
		s.ResetAll()
		res.VerifHandleReconnect(s)
		vsched.AwaitQuiescence()
		for _, m := range conn.Pubs {
			if m.Subject == "system.reset" {
				o.resets = append(o.resets, m.Data)
			}
		}
		// a second start on a fresh connection must subscribe and announce the same
		if s.Shutdown() != nil {
			return
		}
		vsched.Recv(served)
		vsched.Emit(scen.Mon, "epoch2")
		conn2 := envnats.New()
		conn2.KeepPubs = true
		vsched.Go("serve", func() {
			s.Serve(conn2)
			vsched.Send(served, false)
		})
		if !vsched.Recv(served) {
			o.restartErr = true
			return
		}
		vsched.AwaitQuiescence()
		for _, m := range conn2.Pubs {
			if m.Subject == "system.reset" {
				o.resets2 = append(o.resets2, m.Data)
			}
		}
		s.Shutdown()
		vsched.AwaitQuiescence()
	})
	epoch2 := false
	for _, e := range r.Events {
		f := strings.Fields(e.Text)
		if f[0] == "epoch2" {
			epoch2 = true
			continue
		}
		if epoch2 {
			if f[0] == "sub" || f[0] == "subbad" {
				o.subs2 = append(o.subs2, strings.Join(f[1:], " "))
			}
			continue
		}
		switch f[0] {
		case "sub":
			o.subs = append(o.subs, f[1])
			o.queues = append(o.queues, strings.TrimPrefix(f[2], "q="))
		case "subbad":
			if len(f) > 1 {
				o.badSubs = append(o.badSubs, f[1])
			} else {
				o.badSubs = append(o.badSubs, "")
			}
		}
	}
	for _, p := range r.Panics {
		problems = append(problems, "thread panicked: "+firstLineOf(p))
	}
	if r.Deadlock {
		problems = append(problems, "deadlock")
	}
	return
}

func c09Judge(c c09Case, emit func(desc string)) string {
	o, problems := c09Run(c)
	for _, p := range problems {
		emit(p)
	}
	// reference ownership
	var ownR, ownA []string
	if c.Unset {
		all := []string{">"}
		if c.Name != "" {
			all = []string{c.Name, c.Name + ".>"}
		}
		if c.Kinds&(1|2|4|8) != 0 {
			ownR = all
		}
		if c.Kinds&16 != 0 {
			ownA = all
		}
	} else {
		ownR, ownA = c.Res, c.Acc
	}
	if c.Mixed != "" {
		all := []string{">"}
		if c.Name != "" {
			all = []string{c.Name, c.Name + ".>"}
		}
		if c.Mixed == "res" {
			ownR, ownA = c.Res, nil
			if c.Kinds&16 != 0 {
				ownA = all
			}
		} else {
			ownR, ownA = nil, c.Acc
			if c.Kinds&(1|2|4|8) != 0 {
				ownR = all
			}
		}
	}
	if len(ownR) == 0 && len(ownA) == 0 {
		return "nothing-owned"
	}
	for _, b := range o.badSubs {
		emit(fmt.Sprintf("subscribed to %q, which is not a valid NATS subject (the client returns ErrBadSubject)", b))
	}
	if len(o.badSubs) > 0 {
		return "badsub"
	}
	if o.serveErr {
		emit("Serve failed although something is owned")
		return "serve-error"
	}
	// queue group
	wantQ := c.Name
	if c.Queue == "none" {
		wantQ = ""
	}
	for i, q := range o.queues {
		if q != wantQ {
			emit(fmt.Sprintf("subscription %s uses queue group %q, want %q", o.subs[i], q, wantQ))
		}
	}
	// coverage and single delivery
	owned := func(list []string, name string) int {
		n := 0
		for _, p := range list {
			if _, ok := ref.Match(p, name); ok {
				n++
			}
		}
		return n
	}
	for _, name := range c09Names() {
		type probe struct {
			subject string
			n       int
		}
		nr, na := owned(ownR, name), owned(ownA, name)
		for _, p := range []probe{{"get." + name, nr}, {"call." + name + ".m", nr}, {"auth." + name + ".zz", nr}, {"access." + name, na}} {
			if p.n == 0 {
				continue
			}
			m := 0
			for _, s := range o.subs {
				if envnats.Match(s, p.subject) {
					m++
				}
			}
			if m == 0 {
				emit(fmt.Sprintf("request subject %s falls under an owned pattern but no subscription matches it (subscriptions %v)", p.subject, o.subs))
			} else if m > 1 && p.n == 1 {
				emit(fmt.Sprintf("request subject %s falls under a single owned pattern but %d subscriptions match it (subscriptions %v)", p.subject, m, o.subs))
			}
		}
	}
	// no subscription redundant with another one
	for i, a := range o.subs {
		for j, b := range o.subs {
			if i != j && ref.Covers(a, b) {
				emit(fmt.Sprintf("subscription %s is redundant: %s already covers it", b, a))
			}
		}
	}
	// reset payloads: on start, on ResetAll and on reconnect
	wantResets := 3
	if res.VerifMissing["handleReconnect"] {
		wantResets = 2 // this tree has no handleReconnect method to drive: start + ResetAll only
	}
	if len(o.resets) != wantResets {
		emit(fmt.Sprintf("%d system.reset events for start + ResetAll + reconnect, want %d", len(o.resets), wantResets))
	}
	for _, d := range o.resets {
		var ev struct {
			Resources []string `json:"resources"`
			Access    []string `json:"access"`
		}
		json.Unmarshal([]byte(d), &ev)
		if !sameSet(ev.Resources, ownR) || !sameSet(ev.Access, ownA) {
			emit(fmt.Sprintf("system.reset %s does not list exactly the owned patterns resources=%v access=%v", d, ownR, ownA))
		}
	}
	// the second start (fresh connection) subscribes and announces exactly what the first did
	if o.restartErr {
		emit("the second Serve of the same service failed")
	} else {
		var first []string
		for i, sub := range o.subs {
			first = append(first, sub+" q="+o.queues[i])
		}
		if !sameSet(first, o.subs2) {
			emit(fmt.Sprintf("after Shutdown and a second Serve the subscriptions are %v, the first start made %v", o.subs2, first))
		}
		if len(o.resets2) != 1 {
			emit(fmt.Sprintf("%d system.reset events on the second start, want 1", len(o.resets2)))
		}
		for _, d := range o.resets2 {
			var ev struct {
				Resources []string `json:"resources"`
				Access    []string `json:"access"`
			}
			json.Unmarshal([]byte(d), &ev)
			if !sameSet(ev.Resources, ownR) || !sameSet(ev.Access, ownA) {
				emit(fmt.Sprintf("system.reset %s of the second start does not list exactly the owned patterns resources=%v access=%v", d, ownR, ownA))
			}
		}
	}
	sort.Strings(o.subs)
	return strings.Join(o.subs, ",")
}

func sameSet(a, b []string) bool {
	x := append([]string{}, a...)
	y := append([]string{}, b...)
	sort.Strings(x)
	sort.Strings(y)
	return strings.Join(x, "\x00") == strings.Join(y, "\x00")
}

func runC09(c *seqCtx) {
	maxList := 2
	if c.thorough {
		maxList = 3
	}
	var lists [][]string
	var rec func(cur []string)
	rec = func(cur []string) {
		lists = append(lists, cur)
		if len(cur) == maxList {
			return
		}
		for _, e := range c09Pool {
			rec(append(append([]string{}, cur...), e))
		}
	}
	rec(nil)
	run := func(cs c09Case) {
		if !c.Mine() {
			return
		}
		sig := c09Judge(cs, func(desc string) { c.Fail("C09", desc+" ["+cs.String()+"]", cs.String()) })
		c.Eval(cs.String() + "=>" + sig)
		c.out.Transitions += int64(len(c09Names()) * 4)
	}
	for _, name := range []string{"", "s", "s.t"} {
		for _, q := range []string{"default", "none"} {
			for k := 0; k < 32; k++ {
				run(c09Case{Name: name, Unset: true, Kinds: k, Queue: q})
				if name != "" {
					run(c09Case{Name: name, Unset: true, Kinds: k, Queue: q, Root: true})
				}
				run(c09Case{Name: name, Unset: true, Kinds: k, Queue: q, Nested: true})
			}
			for _, l := range lists {
				if len(l) == 0 {
					continue
				}
				run(c09Case{Name: name, Res: l, Acc: []string{}, Queue: q})
				run(c09Case{Name: name, Res: []string{}, Acc: l, Queue: q})
				run(c09Case{Name: name, Res: l, Acc: l, Queue: q})
				// one list explicit, the other left to the default of the registered handler kinds
				for _, k := range []int{1, 16, 17, 31} {
					run(c09Case{Name: name, Res: l, Queue: q, Mixed: "res", Kinds: k})
					run(c09Case{Name: name, Acc: l, Queue: q, Mixed: "acc", Kinds: k})
				}
				if c.Stopped() {
					return
				}
			}
		}
	}
	c.Sample(`{"Name":"s","Res":["s.a","s.>"],"Acc":[],"Queue":"none"} => get.s.> call.s.> auth.s.>`)
}

func replayC09(input string) []string {
	var cs c09Case
	json.Unmarshal([]byte(input), &cs)
	var out []string
	c09Judge(cs, func(desc string) { out = append(out, "C09: "+desc) })
	return out
}

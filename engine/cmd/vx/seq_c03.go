package main

import (
	"fmt"
	"strings"

	res "github.com/jirenius/go-res"

	"verif/envnats"
	"verif/scen"
	"verif/vsched"
)

// c03s: the start/stop state machine of Service against a two-state reference, over every sequence of life
// cycle operations (C03: "a stopped service can be served again", "every number of start/stop cycles").
func init() {
	seqChecks["c03s"] = &seqCheck{run: runC03s, replay: replayC03s,
		rule: "every sequence of <=5 (6 thorough) life-cycle operations over {Serve, ListenAndServe to a refused address, Shutdown, AddListener on an unhandled pattern, Handle that pattern, probe request, With} on one Service under the scheduler, compared step by step with the reference machine {stopped, started}: Serve on a stopped valid service starts it, on an invalid one (listener without handler) or with a refused connection returns an error and leaves it stopped and servable; Serve on a started service returns not-stopped; Shutdown on started returns nil, closes the connection once and leaves no worker; on stopped returns not-started; probe requests and With callbacks are served iff started; distinct = distinct (sequence, result vector)"}
}

var c03sOps = []string{"S", "X", "P", "W", "L", "H", "LS"}

func c03sRun(seq []string, emit func(string)) string {
	var sig []string
	r := scen.RunSeq(func() {
		conn := envnats.New()
		conn.Quiet = true
		conn.KeepPubs = true
		s := res.NewService("t")
		s.SetLogger(nil)
		s.SetWorkerCount(2)
		s.Handle("a", res.GetModel(func(r res.ModelRequest) { r.Model(map[string]int{"v": 1}) }))
		served := make(chan struct{}, 4)
		s.SetOnServe(func(*res.Service) { vsched.Send(served, struct{}{}) })
		started := false
		listener, handled := false, false
		serveRet := make(chan error, 4)
		closes0 := 0
		for i, op := range seq {
			step := fmt.Sprintf("step %d %s (after %v)", i, op, seq[:i])
			valid := !listener || handled
			switch op {
			case "S":
				// S2 is only distinct from S when the service is started: a second Serve while serving
				ret := make(chan error, 1)
				vsched.Go("serve", func() {
					err := s.Serve(conn)
					vsched.Send(ret, err)
					vsched.Send(serveRet, err)
				})
				vsched.AwaitQuiescence()
				switch {
				case started:
					// must return at once with an error, the running service undisturbed
					if len(ret) == 0 {
						emit(step + ": Serve on a started service did not return")
						return
					}
					err := vsched.Recv(ret)
					vsched.Recv(serveRet)
					if err == nil {
						emit(step + ": Serve on a started service returned nil")
					}
					sig = append(sig, "S:notstopped")
				case !valid:
					if len(ret) == 0 {
						emit(step + ": Serve with a listener on an unhandled pattern did not return")
						return
					}
					err := vsched.Recv(ret)
					vsched.Recv(serveRet)
					if err == nil {
						emit(step + ": Serve with a listener on an unhandled pattern returned nil")
					}
					sig = append(sig, "S:invalid")
				default:
					if len(ret) != 0 {
						err := vsched.Recv(ret)
						vsched.Recv(serveRet)
						emit(fmt.Sprintf("%s: Serve on a stopped, valid service returned %v instead of serving", step, err))
						return
					}
					if len(served) != 1 {
						emit(step + ": Serve on a stopped, valid service neither returned nor called OnServe")
						return
					}
					vsched.Recv(served)
					started = true
					closes0 = conn.Closed
					sig = append(sig, "S:started")
				}
			case "LS":
				var err error
				var pn string
				func() {
					defer func() {
						if p := recover(); p != nil {
							pn = fmt.Sprint(p)
						}
					}()
					err = s.ListenAndServe("nats://127.0.0.1:1")
				}()
				if pn != "" {
					emit(step + ": ListenAndServe panicked: " + pn)
					return
				}
				if err == nil {
					emit(step + ": ListenAndServe to a refused address returned nil")
					return
				}
				if started {
					sig = append(sig, "LS:notstopped")
				} else {
					sig = append(sig, "LS:refused")
				}
			case "X":
				err := s.Shutdown()
				vsched.AwaitQuiescence()
				if started {
					if err != nil {
						emit(fmt.Sprintf("%s: Shutdown of a started service returned %v", step, err))
					}
					if len(serveRet) != 1 {
						emit(step + ": Serve did not return after Shutdown")
						return
					}
					if e := vsched.Recv(serveRet); e != nil {
						emit(fmt.Sprintf("%s: Serve returned %v after Shutdown", step, e))
					}
					if conn.Closed-closes0 != 1 {
						emit(fmt.Sprintf("%s: the connection was closed %d times", step, conn.Closed-closes0))
					}
					started = false
					sig = append(sig, "X:stopped")
				} else {
					if err == nil {
						emit(step + ": Shutdown of a stopped service returned nil")
					}
					sig = append(sig, "X:notstarted")
				}
			case "P":
				n0 := len(conn.Pubs)
				conn.Inject("get.t.a", "PROBE", nil)
				vsched.AwaitQuiescence()
				n := 0
				for _, m := range conn.Pubs[n0:] {
					if m.Subject == "PROBE" {
						n++
					}
				}
				want := 0
				if started {
					want = 1
				}
				if n != want {
					emit(fmt.Sprintf("%s: probe request got %d responses, want %d (started=%v)", step, n, want, started))
				}
				sig = append(sig, fmt.Sprintf("P:%d", n))
			case "W":
				ran := 0
				err := s.With("t.a", func(res.Resource) { ran++ })
				vsched.AwaitQuiescence()
				want := 0
				if started {
					want = 1
				}
				if err != nil {
					emit(fmt.Sprintf("%s: With on a handled resource returned %v", step, err))
				}
				if ran != want {
					emit(fmt.Sprintf("%s: With callback ran %d times, want %d (started=%v)", step, ran, want, started))
				}
				sig = append(sig, fmt.Sprintf("W:%d", ran))
			case "L":
				if !listener {
					s.AddListener("x", func(*res.Event) {})
					listener = true
				}
				sig = append(sig, "L")
			case "H":
				if !handled {
					s.Handle("x", res.GetModel(func(r res.ModelRequest) { r.NotFound() }))
					handled = true
				}
				sig = append(sig, "H")
			}
		}
		if started {
			s.Shutdown()
			vsched.AwaitQuiescence()
		}
	})
	for _, p := range r.Panics {
		emit("thread panicked: " + firstLineOf(p))
	}
	if r.Deadlock {
		var bl []string
		for _, b := range r.Blocked {
			bl = append(bl, b.Name+"@"+b.Op)
		}
		emit("deadlock: " + strings.Join(bl, ", "))
	}
	for _, b := range r.Blocked {
		if strings.Contains(b.Name, "startWorker") {
			emit("worker thread still alive at the end: " + b.Name)
		}
	}
	return strings.Join(sig, ",")
}

func runC03s(c *seqCtx) {
	maxLen := 5
	if c.thorough {
		maxLen = 6
	}
	var rec func(cur []string, l, h bool)
	rec = func(cur []string, l, h bool) {
		if c.Stopped() {
			return
		}
		if len(cur) > 0 && c.Mine() {
			in := strings.Join(cur, ",")
			sig := c03sRun(cur, func(d string) { c.Fail("C03", d+" ["+in+"]", in) })
			c.Eval(in + "=>" + sig)
			c.out.Transitions += int64(len(cur))
		}
		if len(cur) == maxLen {
			return
		}
		for _, op := range c03sOps {
			// L and H are one-shot; LS (a real refused dial) only once per sequence
			if (op == "L" && l) || (op == "H" && h) {
				continue
			}
			if op == "LS" && contains(cur, "LS") {
				continue
			}
			rec(append(append([]string{}, cur...), op), l || op == "L", h || op == "H")
		}
	}
	rec(nil, false, false)
	c.Sample("S,X,S,P,X => S:started,X:stopped,S:started,P:1,X:stopped")
}

func contains(l []string, x string) bool {
	for _, e := range l {
		if e == x {
			return true
		}
	}
	return false
}

func replayC03s(input string) []string {
	var out []string
	c03sRun(strings.Split(input, ","), func(d string) { out = append(out, "C03: "+d) })
	return out
}

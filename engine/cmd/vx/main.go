// vx is the explorer binary: it links the rewritten go-res (build overlay) with the scheduler and runs
// scenarios exhaustively (explore), sequential bounded-exhaustive checks (seq) and replays.
package main

import (
	"encoding/json"
	"flag"
	"fmt"
	"os"
	"regexp"
	"runtime"
	"runtime/debug"
	"runtime/pprof"
	"strings"
	"time"

	"verif/envnats"
	"verif/scen"
	"verif/vsched"
)

// ExploreOut is the JSON result of one explore run (one shard).
type ExploreOut struct {
	Scenario    string                  `json:"scenario"`
	Cfg         string                  `json:"cfg"`
	Bound       int                     `json:"bound"`
	Cache       bool                    `json:"cache"`
	Shard       string                  `json:"shard"`
	Execs       int64                   `json:"execs"`
	Pruned      int64                   `json:"pruned"`
	States      int                     `json:"states"`
	Steps       int64                   `json:"steps"`
	Deadlocks   int64                   `json:"deadlocks"`
	Horizons    int64                   `json:"horizons"`
	Outcomes    int                     `json:"outcomes"`
	MaxPoints   int                     `json:"max_points"`
	MaxPreempt  int                     `json:"max_preempt"`
	Exhaustive  bool                    `json:"exhaustive"`
	WallS       float64                 `json:"wall_s"`
	Violations  []ViolationOut          `json:"violations"`
	Sample      []string                `json:"sample"`
	OutcomeKeys []uint64                `json:"outcome_keys"`
	Extra       map[string]int64        `json:"extra,omitempty"`
	Samples     map[string]ViolationOut `json:"samples,omitempty"`
}

type ViolationOut struct {
	Desc    string   `json:"desc"`
	Choices []int    `json:"choices"`
	Events  []string `json:"events"`
}

func parseCfg(s string) scen.Cfg {
	c := scen.DefaultCfg
	if s == "" {
		return c
	}
	p := strings.Split(s, "-")
	if len(p) != 4 {
		fail("bad cfg %q", s)
	}
	fmt.Sscanf(p[0], "w%d", &c.Workers)
	fmt.Sscanf(p[1], "in%d", &c.InCh)
	c.Group, c.Reg = p[2], p[3]
	return c
}

func fail(format string, a ...any) {
	fmt.Fprintf(os.Stderr, "MACHINERY vx: "+format+"\n", a...)
	os.Exit(2)
}

func eventStrings(ev []vsched.Event) []string {
	out := make([]string, len(ev))
	for i, e := range ev {
		out[i] = fmt.Sprintf("%d T%d %s", e.Step, e.Thread, e.Text)
	}
	return out
}

func progressMonitor() {
	go func() {
		last := int64(-1)
		for {
			time.Sleep(60 * time.Second)
			cur := vsched.Steps.Load()
			if cur == last && vsched.Active() {
				buf := make([]byte, 1<<20)
				n := runtime.Stack(buf, true)
				fmt.Fprintf(os.Stderr, "MACHINERY vx: no scheduler progress for 60s\n%s\n", buf[:n])
				os.Exit(2)
			}
			last = cur
		}
	}()
}

func main() {
	if len(os.Args) < 2 {
		fail("usage: vx explore|replay|seq ...")
	}
	progressMonitor()
	debug.SetGCPercent(1000)
	debug.SetMemoryLimit(3 << 30)
	defer cleanupDBs()
	switch os.Args[1] {
	case "explore":
		cmdExplore(os.Args[2:])
	case "replay":
		cmdReplay(os.Args[2:])
	case "seq":
		cmdSeq(os.Args[2:])
	case "crashchild":
		cmdCrashChild(os.Args[2:])
	default:
		fail("unknown command %s", os.Args[1])
	}
}

func makeExplorer(name, cfgs string, bound int, cache bool) (*vsched.Explorer, *scen.Spec) {
	sc := scen.Scenarios[name]
	if sc == nil {
		fail("unknown scenario %s", name)
	}
	cfg := parseCfg(cfgs)
	if scen.DB == nil && (strings.Contains(name, "badger") || strings.HasPrefix(name, "IX") || strings.HasPrefix(name, "SH") || strings.HasPrefix(name, "LM")) {
		scen.DB = openDB()
	}
	body, spec := sc.Make(cfg)
	ex := &vsched.Explorer{
		Cfg:   vsched.Config{SymSites: []string{"startWorker"}, Horizon: sc.Horizon},
		Bound: bound,
		Body:  func() { envnats.Reset(); body() },
		Cache: cache,
		Check: func(r *vsched.Result) []string { return scen.Judge(spec, r) },
	}
	return ex, spec
}

func cmdExplore(args []string) {
	fs := flag.NewFlagSet("explore", flag.ExitOnError)
	name := fs.String("scen", "", "scenario")
	cfgs := fs.String("cfg", "", "configuration")
	bound := fs.Int("bound", 2, "preemption bound (-1 unbounded)")
	cache := fs.Bool("cache", true, "happens-before state caching")
	shard := fs.String("shard", "0/1", "i/n")
	out := fs.String("out", "", "output json")
	maxviol := fs.Int("maxviol", 20, "stop after this many violations")
	timeout := fs.Duration("timeout", 0, "wall-clock cap (reported as non-exhaustive)")
	maxexec := fs.Int64("maxexec", 0, "execution cap")
	prof := fs.String("cpuprofile", "", "write cpu profile")
	samples := fs.Bool("samples", false, "keep one execution per distinct outcome in the output")
	prop := fs.String("prop", "", "record only violations of this property (others would use up the violation cap)")
	fs.Parse(args)
	if *prof != "" {
		f, _ := os.Create(*prof)
		pprof.StartCPUProfile(f)
		defer pprof.StopCPUProfile()
	}
	ex, _ := makeExplorer(*name, *cfgs, *bound, *cache)
	fmt.Sscanf(*shard, "%d/%d", &ex.Shard, &ex.NShards)
	if *prop != "" {
		inner := ex.Check
		ex.Check = func(r *vsched.Result) []string {
			var out []string
			for _, d := range inner(r) {
				if strings.HasPrefix(d, *prop+":") {
					out = append(out, d)
				}
			}
			return out
		}
	}
	ex.MaxViol = *maxviol
	ex.MaxExec = *maxexec
	ex.KeepSamples = *samples
	if *timeout > 0 {
		ex.Until = time.Now().Add(*timeout)
	}
	t0 := time.Now()
	exh := ex.Explore()
	o := ExploreOut{Scenario: *name, Cfg: parseCfg(*cfgs).String(), Bound: *bound, Cache: *cache, Shard: *shard,
		Execs: ex.Execs, Pruned: ex.Pruned, States: ex.States(), Steps: ex.StepsTotal, Deadlocks: ex.Deadlocks, Horizons: ex.Horizons,
		Outcomes: len(ex.Outcomes), MaxPoints: ex.MaxPoints, MaxPreempt: ex.MaxPreempt, Exhaustive: exh, WallS: time.Since(t0).Seconds()}
	for k := range ex.Outcomes {
		o.OutcomeKeys = append(o.OutcomeKeys, k)
	}
	o.Sample = eventStrings(ex.Sample)
	for k, v := range ex.Samples {
		if o.Samples == nil {
			o.Samples = map[string]ViolationOut{}
		}
		o.Samples[fmt.Sprint(k)] = ViolationOut{Choices: v.Choices, Events: eventStrings(v.Events)}
	}
	for i, v := range ex.Violations {
		// before a violation is reported its schedule is replayed twice: identical trace and the same verdict,
		// otherwise the machinery (not the code under test) is at fault
		if i < 5 {
			var h [2]uint64
			for k := 0; k < 2; k++ {
				r, _ := ex.RunOne(v.Choices, false)
				h[k] = r.TraceHash
				found := false
				for _, d := range ex.Check(r) {
					if normDesc(d) == normDesc(v.Desc) {
						found = true
					}
				}
				if !found {
					fail("violation %q did not recur when its schedule was replayed", v.Desc)
				}
			}
			if h[0] != h[1] {
				fail("replay of a violating schedule is not deterministic")
			}
		}
		o.Violations = append(o.Violations, ViolationOut{Desc: v.Desc, Choices: v.Choices, Events: eventStrings(v.Events)})
	}
	data, _ := json.MarshalIndent(o, "", " ")
	if *out != "" {
		os.WriteFile(*out, data, 0o644)
	} else {
		o.OutcomeKeys = nil
		data, _ = json.MarshalIndent(o, "", " ")
		fmt.Println(string(data))
	}
}

var runDependent = regexp.MustCompile(`goroutine \d+|\+?0x[0-9a-f]+`)

// normDesc removes what legitimately differs between two runs of one schedule (goroutine numbers and
// addresses inside a recorded stack).
func normDesc(d string) string { return runDependent.ReplaceAllString(d, "#") }

// Replay file format.
type ReplayFile struct {
	Property string `json:"property"`
	Kind     string `json:"kind"` // "schedule" | "seq"
	Scenario string `json:"scenario"`
	Cfg      string `json:"cfg"`
	Choices  []int  `json:"choices"`
	Desc     string `json:"desc"`
	Check    string `json:"check,omitempty"`
	Input    string `json:"input,omitempty"`
}

func cmdReplay(args []string) {
	if len(args) < 1 {
		fail("usage: vx replay file.json")
	}
	data, err := os.ReadFile(args[0])
	if err != nil {
		fail("%v", err)
	}
	var rf ReplayFile
	if err := json.Unmarshal(data, &rf); err != nil {
		fail("%v", err)
	}
	if rf.Kind == "seq" {
		replaySeq(&rf)
		return
	}
	ex, spec := makeExplorer(rf.Scenario, rf.Cfg, -1, false)
	var first uint64
	for i := 0; i < 3; i++ {
		r, _ := ex.RunOne(rf.Choices, i == 0)
		if i == 0 {
			first = r.TraceHash
			for _, l := range r.Trace {
				fmt.Println(l)
			}
			fmt.Println("--- observations")
			for _, l := range eventStrings(r.Events) {
				fmt.Println(l)
			}
			fmt.Println("--- verdict")
			v := scen.Judge(spec, r)
			for _, d := range v {
				fmt.Println("VIOLATED", d)
			}
			if len(v) == 0 {
				fmt.Println("no violation on this schedule")
			}
		} else if r.TraceHash != first {
			fail("replay is not deterministic (trace hash differs)")
		}
	}
	fmt.Println("replayed 3x with identical trace")
}

package main

import (
	"encoding/json"
	"errors"
	"fmt"
	"math"
	"strings"

	res "github.com/jirenius/go-res"
	"github.com/jirenius/go-res/resprot"

	"verif/envnats"
	"verif/ref"
	"verif/scen"
	"verif/vsched"
)

func init() {
	seqChecks["c07"] = &seqCheck{run: runC07, replay: replayC07,
		rule: "value zoo (nil, numbers, escaped strings, nested data, Ref, SoftRef, DataValue, DeleteAction, chan, NaN, failing and invalid Marshalers) x every reply/event method of every request type x meta {none,status,header,both} x isHttp x resource names of 1-3 tokens x connection ids; every publish is parsed by an independent validator; distinct = distinct (method, value, meta, http, published messages)"}
}

// c07Ctl: characters whose Go string escapes are not JSON escapes, a non-printable rune and invalid UTF-8.
const c07Ctl = "a\x1b\x00\a\v\x7f\U000e0001\xffz \"q\""

type badMarshaler struct{}

func (badMarshaler) MarshalJSON() ([]byte, error) { return nil, errors.New("cannot marshal") }

// resErrMarshaler fails to marshal with an error of the library's own error type (plain and wrapped)
type resErrMarshaler struct{ wrap bool }

func (m resErrMarshaler) MarshalJSON() ([]byte, error) {
	if m.wrap {
		return nil, fmt.Errorf("lookup failed: %w", res.ErrNotFound)
	}
	return nil, res.ErrNotFound
}

// panicMarshaler panics while the response is being encoded (a handler panic in the middle of a reply)
type panicMarshaler struct{}

func (panicMarshaler) MarshalJSON() ([]byte, error) { panic("marshaler panics") }

type invalidMarshaler struct{}

func (invalidMarshaler) MarshalJSON() ([]byte, error) { return []byte(`{"a":`), nil }

var c07Values = []struct {
	name string
	v    interface{}
	ok   bool // marshalable
}{
	{"nil", nil, true},
	{"zero", 0, true},
	{"string", "é\"\n< ", true},
	{"nested", map[string]interface{}{"a": []interface{}{1, map[string]interface{}{"b": nil}}}, true},
	{"ref", res.Ref("t.x.1"), true},
	{"softref", res.SoftRef("t.x.1"), true},
	{"datavalue", res.DataValue[[]int]{Data: []int{1, 2}}, true},
	{"delete", res.DeleteAction, true},
	{"chan", make(chan int), false},
	{"nan", math.NaN(), false},
	{"badmarshaler", badMarshaler{}, false},
	{"invalidmarshaler", invalidMarshaler{}, false},
	{"panicmarshaler", panicMarshaler{}, false},
	{"reserrmarshaler", resErrMarshaler{}, false},
	{"wrappedreserrmarshaler", resErrMarshaler{wrap: true}, false},
}

// resource ids handed to Request.Resource: valid rids whose text needs JSON escaping (query part: anything;
// name part: a backslash followed by a letter that would form a JSON escape)
var c07RIDs = map[string]string{
	"Resource":   "t.x.1?q=1",
	"ResourceQ":  "t.x.1?q=\"a\\b\"\x01\u00e9&p=C:\\dir",
	"ResourceBS": "t.x\\b.1",
}

var c07Methods = map[string][]string{
	"access": {"Access", "AccessTrueEmpty", "AccessDenied", "AccessGranted", "NotFound", "InvalidQuery", "InvalidQueryMsg", "Error", "ErrorData", "ErrorCtl", "InvalidQueryCtl"},
	"get":    {"Model", "QueryModel", "Collection", "QueryCollection", "NotFound", "InvalidQuery", "Error", "ErrorData", "ErrorCtl", "InvalidQueryCtl"},
	"call": {"OK", "Resource", "ResourceQ", "ResourceBS", "NotFound", "MethodNotFound", "InvalidParams", "InvalidParamsMsg", "InvalidQuery", "Error", "ErrorData", "ErrorCtl", "InvalidParamsCtl", "InvalidQueryCtl", "PanicCtl",
		"Event", "ChangeEvent", "AddEvent", "RemoveEvent", "CreateEvent", "DeleteEvent", "ReaccessEvent", "ResetEvent", "Timeout",
		"SvcTokenEvent", "SvcTokenEventWithID", "SvcTokenReset", "SvcReset", "SvcResetAll"},
	"auth": {"OK", "Resource", "ResourceQ", "ResourceBS", "TokenEvent", "Error", "ErrorData", "MethodNotFound", "ErrorCtl", "InvalidParamsCtl"},
	"new":  {"New", "Error"},
}

type c07Case struct {
	Kind   string
	Method string
	Val    int
	Meta   string // none status header both
	HTTP   bool
	Name   string
	CID    string
}

func (c c07Case) String() string {
	return fmt.Sprintf("%s|%s|%d|%s|%v|%s|%s", c.Kind, c.Method, c.Val, c.Meta, c.HTTP, c.Name, c.CID)
}

func parseC07(s string) c07Case {
	f := strings.Split(s, "|")
	c := c07Case{Kind: f[0], Method: f[1], Meta: f[3], HTTP: f[4] == "true", Name: f[5], CID: f[6]}
	fmt.Sscan(f[2], &c.Val)
	return c
}

func c07Run(c c07Case) (pubs []envnats.Msg, problems []string) {
	val := c07Values[c.Val].v
	act := func(r *res.Request) {
		if c.HTTP && r.IsHTTP() {
			if c.Meta == "status" || c.Meta == "both" {
				r.SetResponseStatus(404)
			}
			if c.Meta == "header" || c.Meta == "both" {
				r.ResponseHeader().Add("Set-Cookie", "a=b")
				r.ResponseHeader().Add("Set-Cookie", "c=d")
			}
		}
		switch c.Method {
		case "Access":
			r.Access(true, "m,n")
		case "AccessTrueEmpty":
			r.Access(false, "")
		case "AccessDenied":
			r.AccessDenied()
		case "AccessGranted":
			r.AccessGranted()
		case "NotFound":
			r.NotFound()
		case "MethodNotFound":
			r.MethodNotFound()
		case "InvalidQuery":
			r.InvalidQuery("")
		case "InvalidQueryMsg":
			r.InvalidQuery("bad \"query\"")
		case "InvalidParams":
			r.InvalidParams("")
		case "InvalidParamsMsg":
			r.InvalidParams("bad\nparams")
		case "Error":
			r.Error(errors.New("plain \"err\""))
		case "ErrorData":
			r.Error(&res.Error{Code: "custom.code", Message: "m", Data: val})
		case "ErrorCtl":
			r.Error(&res.Error{Code: "custom." + c07Ctl, Message: c07Ctl})
		case "InvalidParamsCtl":
			r.InvalidParams(c07Ctl)
		case "InvalidQueryCtl":
			r.InvalidQuery(c07Ctl)
		case "PanicCtl":
			panic(c07Ctl)
		case "Model":
			r.Model(val)
		case "QueryModel":
			r.QueryModel(val, "a=1")
		case "Collection":
			r.Collection(val)
		case "QueryCollection":
			r.QueryCollection(val, "a=1")
		case "OK":
			r.OK(val)
		case "Resource":
			r.Resource("t.x.1?q=1")
		case "ResourceQ":
			r.Resource(c07RIDs["ResourceQ"])
		case "ResourceBS":
			r.Resource(c07RIDs["ResourceBS"])
		case "New":
			r.New(res.Ref("t.x.1"))
		case "TokenEvent":
			r.TokenEvent(val)
			r.OK(nil)
		case "Event":
			r.Event("custom", val)
			r.OK(nil)
		case "ChangeEvent":
			r.ChangeEvent(map[string]interface{}{"k": val})
			r.OK(nil)
		case "AddEvent":
			r.AddEvent(val, 3)
			r.OK(nil)
		case "RemoveEvent":
			r.RemoveEvent(0)
			r.OK(nil)
		case "CreateEvent":
			r.CreateEvent(val)
			r.OK(nil)
		case "DeleteEvent":
			r.DeleteEvent()
			r.OK(nil)
		case "ReaccessEvent":
			r.ReaccessEvent()
			r.OK(nil)
		case "ResetEvent":
			r.ResetEvent()
			r.OK(nil)
		case "Timeout":
			r.Timeout(0)
			r.Timeout(1234567)
			r.OK(nil)
		case "SvcTokenEvent":
			r.Service().TokenEvent(c.CID, val)
			r.OK(nil)
		case "SvcTokenEventWithID":
			r.Service().TokenEventWithID(c.CID, "tid\"1", val)
			r.OK(nil)
		case "SvcTokenReset":
			r.Service().TokenReset("auth.t.login", "a", "b\"")
			r.OK(nil)
		case "SvcReset":
			r.Service().Reset([]string{"t.>"}, []string{"t.a.*"})
			r.Service().Reset(nil, []string{"t.a"})
			r.Service().Reset(nil, nil)
			r.OK(nil)
		case "SvcResetAll":
			r.Service().ResetAll()
			r.OK(nil)
		}
	}
	r := scen.RunSeq(func() {
		conn := envnats.New()
		conn.Quiet = true
		conn.KeepPubs = true
		s := res.NewService("t")
		s.SetLogger(nil)
		s.SetWorkerCount(1)
		pattern := strings.TrimPrefix(c.Name, "t.")
		if c.Name == "t" {
			pattern = "" // the service's root resource
		}
		s.Handle(pattern,
			res.Access(func(r res.AccessRequest) { act(r.(*res.Request)) }),
			res.GetResource(func(r res.GetRequest) { act(r.(*res.Request)) }),
			res.Call("m", func(r res.CallRequest) { act(r.(*res.Request)) }),
			res.Auth("m", func(r res.AuthRequest) { act(r.(*res.Request)) }),
			res.New(func(r res.NewRequest) { act(r.(*res.Request)) }),
		)
		served := make(chan struct{}, 1)
		s.SetOnServe(func(*res.Service) { vsched.Send(served, struct{}{}) })
		vsched.Go("serve", func() { s.Serve(conn) })
		vsched.Recv(served)
		n0 := len(conn.Pubs)
		subj := map[string]string{"access": "access." + c.Name, "get": "get." + c.Name, "call": "call." + c.Name + ".m", "auth": "auth." + c.Name + ".m", "new": "call." + c.Name + ".new"}[c.Kind]
		payload := `{"cid":"` + c.CID + `"}`
		if c.HTTP {
			payload = `{"cid":"` + c.CID + `","isHttp":true}`
		}
		conn.Inject(subj, "REPLY", []byte(payload))
		vsched.AwaitQuiescence()
		if c.HTTP {
			// the same request again, this time not flagged as HTTP: nothing of the first response may carry over
			conn.Inject(subj, "REPLY2", []byte(`{"cid":"`+c.CID+`"}`))
			vsched.AwaitQuiescence()
		}
		pubs = append(pubs, conn.Pubs[n0:]...)
	})
	for _, p := range r.Panics {
		problems = append(problems, "thread panicked: "+firstLineOf(p))
	}
	if r.Deadlock {
		problems = append(problems, "deadlock")
	}
	return
}

func c07Judge(c c07Case, emit func(prop, desc string)) string {
	pubs, problems := c07Run(c)
	for _, p := range problems {
		emit("C07", p)
	}
	final := 0
	var sig []string
	for _, m := range pubs {
		sig = append(sig, m.Subject+" "+m.Data)
		if m.Subject == "REPLY2" {
			if e := ref.ValidateResponse(m.Data, false); e != "" {
				emit("C07", fmt.Sprintf("response %q to a second request, not flagged as HTTP, after an HTTP one: %s", m.Data, e))
			}
			continue
		}
		if m.Subject == "REPLY" {
			if e := ref.ValidateResponse(m.Data, c.HTTP); e != "" {
				emit("C07", fmt.Sprintf("response %q: %s", m.Data, e))
			}
			if !strings.HasPrefix(m.Data, "timeout:") {
				final++
				resp := resprot.ParseResponse([]byte(m.Data))
				n := 0
				for _, b := range []bool{resp.HasResult(), resp.HasResource(), resp.HasError()} {
					if b {
						n++
					}
				}
				cls, _ := ref.ResponseClass(m.Data)
				if n != 1 || (resp.HasError() != strings.HasPrefix(cls, "error")) || (resp.HasResource() != (cls == "resource")) {
					emit("C18", fmt.Sprintf("resprot.ParseResponse(%q): result=%v resource=%v error=%v, message class %s", m.Data, resp.HasResult(), resp.HasResource(), resp.HasError(), cls))
				}
				if want, ok := c07RIDs[c.Method]; ok {
					var rr struct {
						Resource *struct {
							RID string `json:"rid"`
						} `json:"resource"`
					}
					if err := json.Unmarshal([]byte(m.Data), &rr); err != nil || rr.Resource == nil || rr.Resource.RID != want {
						emit("C18", fmt.Sprintf("resource response %q does not decode to the resource id %q the handler supplied", m.Data, want))
					}
				}
				// a value that cannot be marshalled must give system.internalError
				usesVal := map[string]bool{"ErrorData": true, "Model": true, "QueryModel": true, "Collection": true, "QueryCollection": true, "OK": true}[c.Method]
				if usesVal && !c07Values[c.Val].ok && cls != "error:system.internalError" {
					emit("C07", fmt.Sprintf("unmarshalable value %s through %s gave %q, want a system.internalError response", c07Values[c.Val].name, c.Method, m.Data))
				}
			}
		} else if e := ref.ValidateEvent(m.Subject, m.Data); e != "" {
			emit("C07", fmt.Sprintf("message on %q %q: %s", m.Subject, m.Data, e))
		}
	}
	if final != 1 {
		emit("C04", fmt.Sprintf("%d responses, want exactly 1: %v", final, sig))
		usesVal := map[string]bool{"ErrorData": true, "Model": true, "QueryModel": true, "Collection": true, "QueryCollection": true, "OK": true}[c.Method]
		if final == 0 && usesVal && !c07Values[c.Val].ok {
			emit("C07", fmt.Sprintf("unmarshalable value %s through %s produced no message at all, want a system.internalError response", c07Values[c.Val].name, c.Method))
		}
	}
	return strings.Join(sig, ";")
}

func runC07(c *seqCtx) {
	names := []string{"t.r", "t", "t.a.b"}
	cids := []string{"c1", "a$b-_~"}
	for _, kind := range []string{"access", "get", "call", "auth", "new"} {
		for _, m := range c07Methods[kind] {
			for vi := range c07Values {
				for _, meta := range []string{"none", "status", "header", "both"} {
					for _, http := range []bool{false, true} {
						if !http && meta != "none" {
							continue
						}
						for ni, name := range names {
							for ci, cid := range cids {
								if (ni > 0 || ci > 0) && !(vi == 2 && meta != "header") && !c.thorough {
									continue // quick: name/cid variation on one value only
								}
								if !c.Mine() {
									continue
								}
								cs := c07Case{Kind: kind, Method: m, Val: vi, Meta: meta, HTTP: http, Name: name, CID: cid}
								sig := c07Judge(cs, func(prop, desc string) { c.Fail(prop, desc+" ["+cs.String()+"]", cs.String()) })
								c.Eval(cs.String() + "=>" + sig)
								c.out.Transitions++
								if c.Stopped() {
									return
								}
							}
						}
					}
				}
			}
		}
	}
	c.Sample(`call|ErrorData|chan|both|http => {"error":{"code":"system.internalError",...}}`)
	c.out.States = c.out.DistinctNontrivial
}

func replayC07(input string) []string {
	var out []string
	c07Judge(parseC07(input), func(prop, desc string) { out = append(out, prop+": "+desc) })
	return out
}

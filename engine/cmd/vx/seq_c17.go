package main

import (
	"fmt"
	"sort"
	"strings"

	res "github.com/jirenius/go-res"
	"github.com/jirenius/go-res/store"

	"verif/ref"
)

func init() {
	seqChecks["c17"] = &seqCheck{run: runC17, replay: replayC17,
		rule: "every pattern string over {a,b,.,$,*,>,?,space} (len<=5 quick, <=6 thorough) x every name over {a,b,.,$,>} (len<=5), plus pattern/pattern cover pairs and tag maps; distinct = distinct (pattern, reference verdict vector) pairs; inputs the documentation leaves undefined are excluded and counted"}
}

func safe(f func()) (panicked string) {
	defer func() {
		if p := recover(); p != nil {
			panicked = fmt.Sprint(p)
		}
	}()
	f()
	return ""
}

// c17Pattern checks everything about one pattern string; it returns violations as (desc, input).
func c17Pattern(p string, names []string, validNames []string, emit func(desc, input string), count func(key string), excluded func()) {
	want, unspec := ref.PatternValid(p)
	if unspec {
		excluded()
		return
	}
	got := res.Pattern(p).IsValid()
	if got != want {
		emit(fmt.Sprintf("Pattern(%q).IsValid()=%v, grammar says %v", p, got, want), "pattern\x1f"+p)
		return
	}
	// path validity: valid pattern without wildcards
	wantPath := p == "" || (want && ref.IndexWildcard(p) == -1)
	if gotPath := res.VerifIsValidPath(p); gotPath != wantPath && !res.VerifMissing["isValidPath"] {
		emit(fmt.Sprintf("isValidPath(%q)=%v, grammar says %v", p, gotPath, wantPath), "pattern\x1f"+p)
	}
	if !want {
		count("")
		return
	}
	if p != "" {
		if gi, wi := res.Pattern(p).IndexWildcard(), ref.IndexWildcard(p); gi != wi {
			emit(fmt.Sprintf("Pattern(%q).IndexWildcard()=%d, reference %d", p, gi, wi), "pattern\x1f"+p)
		}
	}
	nmatch := 0
	for _, n := range validNames {
		wvals, wm := ref.Match(p, n)
		var gm, gok bool
		var gvals map[string]string
		if pn := safe(func() {
			gm = res.Pattern(p).Matches(n)
			gvals, gok = res.Pattern(p).Values(n)
		}); pn != "" {
			emit(fmt.Sprintf("Pattern(%q) Matches/Values(%q) panicked: %s", p, n, pn), "pair\x1f"+p+"\x1f"+n)
			continue
		}
		if gm != wm {
			emit(fmt.Sprintf("Pattern(%q).Matches(%q)=%v, reference %v", p, n, gm, wm), "pair\x1f"+p+"\x1f"+n)
		}
		if gok != wm {
			emit(fmt.Sprintf("Pattern(%q).Values(%q) ok=%v, reference match %v (Matches=%v)", p, n, gok, wm, gm), "pair\x1f"+p+"\x1f"+n)
		}
		if wm && gok {
			if fmt.Sprint(sortedMap(gvals)) != fmt.Sprint(sortedMap(wvals)) {
				emit(fmt.Sprintf("Pattern(%q).Values(%q)=%v, reference %v", p, n, gvals, wvals), "pair\x1f"+p+"\x1f"+n)
			}
			// substituting the values back gives a pattern that still matches (the name itself without anonymous wildcards)
			back := string(res.Pattern(p).ReplaceTags(gvals))
			wback := ref.ReplaceTags(p, wvals)
			if back != wback {
				emit(fmt.Sprintf("Pattern(%q).ReplaceTags(%v)=%q, reference %q", p, gvals, back, wback), "pair\x1f"+p+"\x1f"+n)
			}
			if !res.Pattern(back).Matches(n) {
				emit(fmt.Sprintf("Pattern(%q) with values of %q substituted back gives %q which does not match it", p, n, back), "pair\x1f"+p+"\x1f"+n)
			}
			if !strings.Contains(p, "*") && !strings.Contains(p, ">") && back != n {
				emit(fmt.Sprintf("Pattern(%q) with values of %q substituted back gives %q, not the name", p, n, back), "pair\x1f"+p+"\x1f"+n)
			}
			nmatch++
		}
	}
	count(fmt.Sprintf("%s|%d", p, nmatch))
}

func sortedMap(m map[string]string) []string {
	var out []string
	for k, v := range m {
		out = append(out, k+"="+v)
	}
	sort.Strings(out)
	return out
}

func c17Names(maxLen int) (all, valid []string) {
	ref.Strings([]string{"a", "b", ".", "$", ">"}, maxLen, func(s string) bool {
		all = append(all, s)
		if ref.NameValid(s) {
			valid = append(valid, s)
		}
		return true
	})
	return
}

func c17Cover(p, q string, emit func(desc, input string)) {
	want := ref.Covers(p, q)
	var got bool
	if pn := safe(func() { got = res.Pattern(p).Matches(q) }); pn != "" {
		emit(fmt.Sprintf("Pattern(%q).Matches(pattern %q) panicked: %s", p, q, pn), "cover\x1f"+p+"\x1f"+q)
		return
	}
	if got != want {
		emit(fmt.Sprintf("Pattern(%q).Matches(pattern %q)=%v, but 'every name of the second matches the first' is %v", p, q, got, want), "cover\x1f"+p+"\x1f"+q)
	}
}

func c17Part(s string, emit func(desc, input string)) {
	want := ref.PartValid(s)
	if got := res.VerifIsValidPart(s); got != want && !res.VerifMissing["isValidPart"] {
		emit(fmt.Sprintf("isValidPart(%q)=%v, reference %v", s, got, want), "part\x1f"+s)
	}
	// resource ids: a name without query is a valid RID iff all its parts are valid
	rn := s
	if i := strings.IndexByte(s, '?'); i >= 0 {
		rn = s[:i] // the query part of a resource id is free-form
	}
	wantRID := ref.NameValid(rn)
	if got := res.IsValidRID(s); got != wantRID {
		emit(fmt.Sprintf("IsValidRID(%q)=%v, reference (all parts valid) %v", s, got, wantRID), "part\x1f"+s)
	}
	if got := res.Ref(s).IsValid(); got != wantRID {
		emit(fmt.Sprintf("Ref(%q).IsValid()=%v, reference %v", s, got, wantRID), "part\x1f"+s)
	}
	// argument checks accept exactly the valid parts
	callOK := safe(func() { res.Call(s, func(res.CallRequest) {}) }) == ""
	authOK := safe(func() { res.Auth(s, func(res.AuthRequest) {}) }) == ""
	if s != "*" && (callOK != want || authOK != want) {
		emit(fmt.Sprintf("Call/Auth(%q) accepted=%v/%v, valid part=%v", s, callOK, authOK, want), "part\x1f"+s)
	}
	// id transformer round trip for ids that are valid parts
	if want {
		// the tag name also occurs inside a literal token, as a prefix of another tag and after the tag
		for _, pat := range []string{"m.$id", "a$id.$id", "m.$id.n", "$idx.m.$id", "x$id$id.y.$id.$idy"} {
			m := res.NewMux("")
			pn := safe(func() { m.Handle(pat) })
			if pn != "" {
				emit("Handle("+pat+") panicked: "+pn, "part\x1f"+s)
				return
			}
			tr := store.IDTransformer("id", nil)
			rid := tr.IDToRID(s, nil, res.Pattern(pat))
			wantRID := ref.ReplaceTags(pat, map[string]string{"id": s})
			if rid != wantRID {
				emit(fmt.Sprintf("IDTransformer(id).IDToRID(%q) on pattern %q gives %q, replacing the tag token gives %q", s, pat, rid, wantRID), "part\x1f"+s)
				continue
			}
			// remaining tags get concrete values to make it a resource id
			concrete := string(res.Pattern(rid).ReplaceTags(map[string]string{"idx": "q", "idy": "r"}))
			mh := m.GetHandler(concrete)
			if mh == nil {
				emit(fmt.Sprintf("IDTransformer: id %q -> rid %q is not routed to %q", s, concrete, pat), "part\x1f"+s)
				continue
			}
			if back := tr.RIDToID(concrete, mh.Params); back != s {
				emit(fmt.Sprintf("IDTransformer on %q: id %q -> rid %q -> id %q", pat, s, concrete, back), "part\x1f"+s)
			}
		}
	}
}

func runC17(c *seqCtx) {
	maxP := 5
	if c.thorough {
		maxP = 6
	}
	_, validNames := c17Names(5)
	emit := func(desc, input string) { c.Fail("C17", desc, input) }
	var validPatterns []string
	ref.Strings([]string{"a", "b", ".", "$", "*", ">", "?", " "}, maxP, func(p string) bool {
		if v, u := ref.PatternValid(p); v && !u && len(p) <= 5 {
			validPatterns = append(validPatterns, p)
		}
		if !c.Mine() {
			return true
		}
		c17Pattern(p, nil, validNames, emit, c.Eval, c.Excluded)
		if v, u := ref.PatternValid(p); v && !u {
			c.out.Evaluations += int64(len(validNames))
		}
		return !c.Stopped()
	})
	// every byte value once: alone, inside a token, as a token of its own and in a tag name
	for b := 0; b < 256; b++ {
		ch := string([]byte{byte(b)})
		for _, p := range []string{ch, "a" + ch, "a." + ch + "b", "$" + ch, ch + ".a"} {
			if c.Mine() {
				c17Pattern(p, nil, validNames[:1], emit, c.Eval, c.Excluded)
			}
		}
	}
	c.Sample(fmt.Sprintf("pattern %q x %d valid names", "a.$a.>", len(validNames)))
	// pattern/pattern cover, all pairs of valid patterns up to length 4 (5 thorough)
	lim := 4
	if c.thorough {
		lim = 5
	}
	var vp []string
	for _, p := range validPatterns {
		if len(p) <= lim && p != "" {
			vp = append(vp, p)
		}
	}
	for _, p := range vp {
		for _, q := range vp {
			if !c.Mine() {
				continue
			}
			c17Cover(p, q, emit)
			c.Eval("cover|" + p + "|" + q)
		}
		if c.Stopped() {
			return
		}
	}
	c.Sample(fmt.Sprintf("cover pairs over %d valid patterns", len(vp)))
	// parts, ids
	ref.Strings([]string{"a", "b", ".", "$", "*", ">", "?", " ", "~", "\x7f", "é"}, 3, func(s string) bool {
		if !c.Mine() {
			return true
		}
		c17Part(s, emit)
		c.Eval("part|" + s)
		return !c.Stopped()
	})
	// tag maps
	tags := []string{"a", "b", "ab"}
	vals := []string{"", "x", "x.y"}
	for _, p := range vp {
		if !strings.Contains(p, "$") || !c.Mine() {
			continue
		}
		for mask := 0; mask < 27; mask++ {
			m := map[string]string{}
			mm := mask
			for _, t := range tags {
				if v := mm % 3; v > 0 {
					m[t] = vals[v]
				}
				mm /= 3
			}
			got := string(res.Pattern(p).ReplaceTags(m))
			want := ref.ReplaceTags(p, m)
			if got != want {
				emit(fmt.Sprintf("Pattern(%q).ReplaceTags(%v)=%q, reference %q", p, m, got, want), "tags\x1f"+p+"\x1f"+fmt.Sprint(mask))
			}
			for t, v := range m {
				g1 := string(res.Pattern(p).ReplaceTag(t, v))
				w1 := ref.ReplaceTags(p, map[string]string{t: v})
				if g1 != w1 {
					emit(fmt.Sprintf("Pattern(%q).ReplaceTag(%q,%q)=%q, reference %q", p, t, v, g1, w1), "tags\x1f"+p+"\x1f"+fmt.Sprint(mask))
				}
			}
			c.Eval("tags|" + p + "|" + fmt.Sprint(mask))
		}
	}
}

func replayC17(input string) []string {
	f := strings.Split(input, "\x1f")
	var out []string
	emit := func(desc, _ string) { out = append(out, "C17: "+desc) }
	switch f[0] {
	case "pattern":
		_, vn := c17Names(5)
		c17Pattern(f[1], nil, vn, emit, func(string) {}, func() {})
	case "pair":
		c17Pattern(f[1], nil, []string{f[2]}, emit, func(string) {}, func() {})
	case "cover":
		c17Cover(f[1], f[2], emit)
	case "part":
		c17Part(f[1], emit)
	case "tags":
		emit("replay of tag maps: rerun the check", "")
	}
	return out
}

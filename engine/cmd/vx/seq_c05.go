package main

import (
	"fmt"
	"sort"
	"strings"

	"verif/ref"
	"verif/scen"
)

func init() {
	seqChecks["c05"] = &seqCheck{run: runC05, replay: replayC05,
		rule: "pattern sets (1-2 of 7 patterns) x every subset of {Access,Get,Call m,Call *,New,Auth m,Auth *} on the first pattern x every subject <type>.<name>[.<method>] with names of 1-3 tokens over {a,b,new,get,call,m} and methods {m,new,zz}; plus all 2^9 presence combinations of the request fields and 5x5 raw params/token values per request type; reference = table-driven dispatcher; distinct = distinct (registration, subject, invoked handler, response class)"}
}

var c05Pool = []string{"a", "$x", "a.$y", "$x.$y", "a.new", "$x.m", ">"}
var c05Kinds = []string{"Access", "Get", "Call m", "Call *", "New", "Auth m", "Auth *"}

func c05Spec(pattern string, mask int) scen.HSpec {
	h := scen.HSpec{Pattern: pattern}
	if mask&1 != 0 {
		h.Access = true
	}
	if mask&2 != 0 {
		h.Get = true
	}
	if mask&4 != 0 {
		h.Call = append(h.Call, "m")
	}
	if mask&8 != 0 {
		h.Call = append(h.Call, "*")
	}
	if mask&16 != 0 {
		h.New = true
	}
	if mask&32 != 0 {
		h.Auth = append(h.Auth, "m")
	}
	if mask&64 != 0 {
		h.Auth = append(h.Auth, "*")
	}
	return h
}

func c05Names() []string {
	toks := []string{"a", "b", "new", "get", "call", "m"}
	var out []string
	for _, x := range toks {
		out = append(out, x)
		for _, y := range toks {
			out = append(out, x+"."+y)
		}
	}
	for _, x := range []string{"a", "new", "m"} {
		for _, y := range []string{"a", "new", "m"} {
			for _, z := range []string{"a", "new", "m"} {
				out = append(out, x+"."+y+"."+z)
			}
		}
	}
	return out
}

func c05Subjects() []string {
	var out []string
	for _, n := range c05Names() {
		out = append(out, "access.t."+n, "get.t."+n)
		for _, m := range []string{"m", "new", "zz"} {
			out = append(out, "call.t."+n+"."+m, "auth.t."+n+"."+m)
		}
	}
	return out
}

func normNoRegConflict(a, b string) bool {
	return strings.NewReplacer("$x", "*", "$y", "*").Replace(a) == strings.NewReplacer("$x", "*", "$y", "*").Replace(b)
}

func sortedParams(m map[string]string) string {
	var pp []string
	for k, v := range m {
		pp = append(pp, k+"="+v)
	}
	sort.Strings(pp)
	return strings.Join(pp, ",")
}

// c05Dispatch checks one registration against all subjects.
func c05Dispatch(p1 string, mask int, p2 string, subjects []string, emit func(desc, input string), count func(string)) {
	specs := []scen.HSpec{c05Spec(p1, mask)}
	if p2 != "" {
		specs = append(specs, scen.HSpec{Pattern: p2, Access: true, Get: true, Call: []string{"*"}, Auth: []string{"*"}})
	}
	if mask == 0 && p2 == "" {
		return
	}
	reqs := make([]scen.BatchReq, len(subjects))
	for i, s := range subjects {
		reqs[i] = scen.BatchReq{Subject: s, Payload: []byte(`{"query":"q"}`)}
	}
	results, r := scen.RunBatch("t", specs, []string{"ok"}, reqs)
	key := fmt.Sprintf("%s|%d|%s", p1, mask, p2)
	if len(r.Panics) > 0 || r.Deadlock {
		emit(fmt.Sprintf("service panicked or deadlocked with registration %s: %v", key, r.Panics), "dispatch\x1f"+key+"\x1f")
		return
	}
	rs := refSpecs(specs)
	for i, s := range subjects {
		in := "dispatch\x1f" + key + "\x1f" + s
		marker, static, rname, params := ref.Dispatch("t", rs, s, reqs[i].Payload, false)
		got := ""
		res := results[i]
		if len(res.Invoked) > 0 {
			got = res.Invoked[0].Marker
		}
		if len(res.Invoked) > 1 {
			emit(fmt.Sprintf("request %s invoked %d handlers with registration %s", s, len(res.Invoked), key), in)
		}
		if got != marker {
			emit(fmt.Sprintf("request %s invoked handler %q, reference dispatch says %q (registration %s: %s on %q)", s, got, marker, key, maskString(mask), p1), in)
			continue
		}
		class := "none"
		if len(res.Replies) > 0 {
			class, _ = ref.ResponseClass(res.Replies[0])
		}
		if marker != "" {
			v := res.Invoked[0].Vals
			if v["rname"] != rname || v["params"] != sortedParams(params) || v["query"] != "q" {
				emit(fmt.Sprintf("request %s: handler saw resource %q params %q query %q, sent %q %q %q (registration %s)", s, v["rname"], v["params"], v["query"], rname, sortedParams(params), "q", key), in)
			}
			wantM := ""
			if f := strings.Split(marker, "/"); f[1] == "call" || f[1] == "auth" || f[1] == "new" {
				wantM = s[strings.LastIndexByte(s, '.')+1:]
			}
			if v["method"] != wantM {
				emit(fmt.Sprintf("request %s: handler saw method %q, want %q", s, v["method"], wantM), in)
			}
			if class != "result" {
				emit(fmt.Sprintf("request %s handled by %s: response class %s, want result", s, marker, class), in)
			}
		} else {
			want := "error:system." + static
			if static == "none" {
				want = "none"
			}
			if class != want || len(res.Replies) > 1 {
				emit(fmt.Sprintf("request %s with nothing to invoke: response %v, want %s (registration %s)", s, res.Replies, want, key), in)
			}
		}
		count(key + "|" + s + "|" + marker + "|" + class)
	}
}

func maskString(mask int) string {
	var out []string
	for i, k := range c05Kinds {
		if mask&(1<<i) != 0 {
			out = append(out, k)
		}
	}
	return strings.Join(out, "+")
}

var c05Fields = []struct{ name, json, want string }{
	{"cid", `"cid":"c9"`, "c9"},
	{"params", `"params":{"p":[1,2]}`, `{"p":[1,2]}`},
	{"token", `"token":{"u":"x"}`, `{"u":"x"}`},
	{"header", `"header":{"A":["1","2"],"B":["3"]}`, "A=1|2,B=3"},
	{"host", `"host":"example.com"`, "example.com"},
	{"remoteAddr", `"remoteAddr":"10.0.0.1:99"`, "10.0.0.1:99"},
	{"uri", `"uri":"/ws?x=1"`, "/ws?x=1"},
	{"query", `"query":"a=1&b=2"`, "a=1&b=2"},
	{"isHttp", `"isHttp":true`, "true"},
}

var c05Acc = map[string]string{"cid": "cid", "params": "rawparams", "token": "rawtoken", "header": "header", "host": "host",
	"remoteAddr": "remoteAddr", "uri": "uri", "query": "query", "isHttp": "ishttp"}

func c05FieldsCase(kind string, mask int, rawP, rawT string, emit func(desc, input string)) string {
	var parts []string
	want := map[string]string{"cid": "", "rawparams": "", "rawtoken": "", "header": "", "host": "", "remoteAddr": "", "uri": "", "query": "", "ishttp": "false"}
	for i, f := range c05Fields {
		if mask&(1<<i) == 0 {
			continue
		}
		j, w := f.json, f.want
		if f.name == "params" && rawP != "" {
			j, w = `"params":`+rawP, rawP
		}
		if f.name == "token" && rawT != "" {
			j, w = `"token":`+rawT, rawT
		}
		parts = append(parts, j)
		want[c05Acc[f.name]] = w
	}
	payload := "{" + strings.Join(parts, ",") + "}"
	subj := map[string]string{"access": "access.t.r", "get": "get.t.r", "call": "call.t.r.m", "auth": "auth.t.r.m"}[kind]
	in := fmt.Sprintf("fields\x1f%s\x1f%d\x1f%s\x1f%s", kind, mask, rawP, rawT)
	specs := []scen.HSpec{{Pattern: "r", Access: true, Get: true, Call: []string{"m"}, Auth: []string{"m"}}}
	results, r := scen.RunBatch("t", specs, []string{"ok"}, []scen.BatchReq{{Subject: subj, Payload: []byte(payload)}})
	if len(r.Panics) > 0 || len(results[0].Invoked) != 1 {
		emit(fmt.Sprintf("%s request with payload %s: %d handlers invoked, panics %v", kind, payload, len(results[0].Invoked), r.Panics), in)
		return payload
	}
	v := results[0].Invoked[0].Vals
	for k, w := range want {
		g := v[k]
		if (k == "rawparams" || k == "rawtoken") && w == "null" {
			// a null member: the documentation says "nil if the request had no parameters"; both nil and null are accepted
			if g == "" || g == "null" {
				continue
			}
		}
		if g != w {
			emit(fmt.Sprintf("%s request with payload %s: handler saw %s=%q, sent %q", kind, payload, k, g, w), in)
		}
	}
	return payload
}

// c05History sends a sequence of requests to ONE service: what a handler sees must depend on its own
// request only, whatever was received before (including rejected payloads).
var c05HistPool = []struct {
	payload string
	ok      bool // reaches the handler
	want    map[string]string
}{
	{``, true, map[string]string{}},
	{`{}`, true, map[string]string{}},
	{`{"cid":"c1","params":{"p":1},"token":{"t":1},"query":"q=1","isHttp":true,"host":"h1","uri":"/u1","remoteAddr":"r1","header":{"A":["1"]}}`, true,
		map[string]string{"cid": "c1", "rawparams": `{"p":1}`, "rawtoken": `{"t":1}`, "query": "q=1", "ishttp": "true", "host": "h1", "uri": "/u1", "remoteAddr": "r1", "header": "A=1"}},
	{`{"cid":"c2"}`, true, map[string]string{"cid": "c2"}},
	{`{"cid":42,"params":{"p":2},"token":{"t":2},"query":"q=2","isHttp":true,"host":"h2","uri":"/u2","remoteAddr":"r2","header":{"B":["2"]}}`, false, nil},
	{`{"token":{"t":3},"query":"q=3","isHttp":"yes"}`, false, nil},
	{`{"params":[3]`, false, nil},
	{`{"query":"q=4","params":null}`, true, map[string]string{"query": "q=4"}},
}

func c05History(kind string, seq []int, emit func(desc, input string)) {
	subj := map[string]string{"access": "access.t.r", "get": "get.t.r", "call": "call.t.r.m", "auth": "auth.t.r.m"}[kind]
	specs := []scen.HSpec{{Pattern: "r", Access: true, Get: true, Call: []string{"m"}, Auth: []string{"m"}}}
	var reqs []scen.BatchReq
	for _, i := range seq {
		reqs = append(reqs, scen.BatchReq{Subject: subj, Payload: []byte(c05HistPool[i].payload)})
	}
	in := fmt.Sprintf("history\x1f%s\x1f%v", kind, seq)
	results, r := scen.RunBatch("t", specs, []string{"ok"}, reqs)
	if len(r.Panics) > 0 || r.Deadlock {
		emit(fmt.Sprintf("%s request history %v: panics %v", kind, seq, r.Panics), in)
		return
	}
	for k, i := range seq {
		p := c05HistPool[i]
		res := results[k]
		if !p.ok {
			cls := "none"
			if len(res.Replies) > 0 {
				cls, _ = ref.ResponseClass(res.Replies[0])
			}
			if len(res.Invoked) != 0 || cls != "error:system.internalError" {
				emit(fmt.Sprintf("%s request #%d of history %v with undecodable payload %s: %d handlers invoked, response %v", kind, k, seq, p.payload, len(res.Invoked), res.Replies), in)
			}
			continue
		}
		if len(res.Invoked) != 1 {
			emit(fmt.Sprintf("%s request #%d of history %v (payload %s): %d handlers invoked", kind, k, seq, p.payload, len(res.Invoked)), in)
			continue
		}
		v := res.Invoked[0].Vals
		for _, key := range []string{"cid", "rawparams", "rawtoken", "query", "ishttp", "host", "uri", "remoteAddr", "header"} {
			w := p.want[key]
			if key == "ishttp" && w == "" {
				w = "false"
			}
			g := v[key]
			if key == "rawparams" && g == "null" && w == "" {
				continue
			}
			if g != w {
				emit(fmt.Sprintf("%s request #%d of history %v (payload %s): handler saw %s=%q, sent %q", kind, k, seq, p.payload, key, g, w), in)
			}
		}
	}
}

func runC05(c *seqCtx) {
	emit := func(desc, input string) { c.Fail("C05", desc, input) }
	subjects := c05Subjects()
	c.Extra("subjects", int64(len(subjects)))
	for _, p1 := range c05Pool {
		for mask := 0; mask < 128; mask++ {
			if mask&16 != 0 && mask&(4|8) == 0 && !c.thorough && mask != 16 {
				// New without any Call handler: covered by mask 16 alone in quick
			}
			if !c.Mine() {
				continue
			}
			c05Dispatch(p1, mask, "", subjects, emit, c.Eval)
			c.out.Transitions += int64(len(subjects))
			if c.Stopped() {
				return
			}
		}
	}
	c.Sample(fmt.Sprintf("pattern $x.m with {Get,Call *,New} x %d subjects such as call.t.new.m.new", len(subjects)))
	// two patterns: the first with a reduced family of subsets
	masks := []int{1, 2, 4, 8, 16, 32, 64, 2 | 4, 8 | 16, 4 | 16, 32 | 64, 127, 1 | 2 | 8 | 64}
	if c.thorough {
		masks = nil
		for m := 1; m < 128; m++ {
			masks = append(masks, m)
		}
	}
	for _, p1 := range c05Pool {
		for _, p2 := range c05Pool {
			if normNoRegConflict(p1, p2) {
				continue
			}
			for _, mask := range masks {
				if !c.Mine() {
					continue
				}
				c05Dispatch(p1, mask, p2, subjects, emit, c.Eval)
				c.out.Transitions += int64(len(subjects))
				if c.Stopped() {
					return
				}
			}
		}
	}
	c.Sample("patterns [a.$y | >] with {Call m} on the first, all subjects")
	// payload fields
	for _, kind := range []string{"access", "get", "call", "auth"} {
		for mask := 0; mask < 512; mask++ {
			if !c.Mine() {
				continue
			}
			p := c05FieldsCase(kind, mask, "", "", emit)
			c.Eval("fields|" + kind + "|" + p)
		}
		raws := []string{"null", "0", `"s"`, `{"k":{"n":1}}`, `[1,"x"]`}
		for _, rp := range raws {
			for _, rt := range raws {
				if !c.Mine() {
					continue
				}
				p := c05FieldsCase(kind, 2|4, rp, rt, emit)
				c.Eval("raw|" + kind + "|" + p)
			}
		}
	}
	c.Sample(`auth.t.r.m {"cid":"c9","token":{"u":"x"},"uri":"/ws?x=1"} -> accessors`)
	// request histories on one service
	n := len(c05HistPool)
	hlen := 3
	for _, kind := range []string{"access", "get", "call", "auth"} {
		var rec func(cur []int)
		rec = func(cur []int) {
			if len(cur) >= 2 && c.Mine() {
				c05History(kind, cur, emit)
				c.Eval(fmt.Sprintf("hist|%s|%v", kind, cur))
				c.out.Transitions += int64(len(cur))
			}
			if len(cur) == hlen {
				return
			}
			for i := 0; i < n; i++ {
				rec(append(append([]int{}, cur...), i))
			}
		}
		rec(nil)
	}
	c.Sample("history auth: [wrongly typed cid with token+isHttp] , [{}] -> second handler sees nothing of the first")
	c.out.States = c.out.DistinctNontrivial
}

func replayC05(input string) []string {
	f := strings.Split(input, "\x1f")
	var out []string
	emit := func(desc, _ string) { out = append(out, "C05: "+desc) }
	switch f[0] {
	case "dispatch":
		k := strings.Split(f[1], "|")
		var mask int
		fmt.Sscan(k[1], &mask)
		subj := c05Subjects()
		if f[2] != "" {
			subj = []string{f[2]}
		}
		c05Dispatch(k[0], mask, k[2], subj, emit, func(string) {})
	case "history":
		var seq []int
		for _, x := range strings.Fields(strings.Trim(f[2], "[]")) {
			var i int
			fmt.Sscan(x, &i)
			seq = append(seq, i)
		}
		c05History(f[1], seq, emit)
	case "fields":
		var mask int
		fmt.Sscan(f[2], &mask)
		c05FieldsCase(f[1], mask, f[3], f[4], emit)
	}
	return out
}

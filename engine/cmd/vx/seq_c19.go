package main

import (
	"encoding/json"
	"fmt"
	"sort"
	"strings"
	"time"

	"github.com/jirenius/go-res/resprot"

	"verif/envnats"
	"verif/scen"
	"verif/vsched"
)

func init() {
	seqChecks["c19"] = &seqCheck{run: runC19, replay: replayC19,
		rule: "every environment script of <=3 (quick; <=4 thorough) steps over {result, error, resource, garbage, empty message, pre-response 30ms, 3000ms, malformed, unknown key, sleep 200ms/900ms/3000ms} x fault {none, marshal, subscribe, publish}; for each script all interleavings of SendRequest, the environment and the virtual clock up to the preemption bound are explored on the real code, and every observed (response, extension callbacks) outcome must be one the nondeterministic reference model allows; distinct = distinct (script, outcome) pairs"}
}

var c19Steps = []string{"result", "error", "resource", "garbage", "emptymsg", "pre30", "pre3000", "premal", "preunk", "s200", "s900", "s3000"}

var c19Msg = map[string]string{
	"result":   `{"result":{"foo":"bar"}}`,
	"error":    `{"error":{"code":"custom.err","message":"E"}}`,
	"resource": `{"resource":{"rid":"t.x"}}`,
	"garbage":  `{]`,
	"emptymsg": ``,
	"pre30":    `timeout:"30"`,
	"pre3000":  `timeout:"3000"`,
	"premal":   `timeout:"abc"`,
	"preunk":   `foo:"12"`,
}

var c19Sleep = map[string]time.Duration{"s200": 200 * time.Millisecond, "s900": 900 * time.Millisecond, "s3000": 3000 * time.Millisecond}

const c19Timeout = 1000 * time.Millisecond

// outcome class of a response message (what SendRequest must return for it)
func c19Class(step string) string {
	switch step {
	case "result":
		return "result"
	case "error":
		return "error:custom.err"
	case "resource":
		return "resource"
	case "garbage", "emptymsg":
		return "error:system.internalError"
	}
	return ""
}

// --- reference model: explicit-state search over interleavings of environment, clock and SendRequest ---

type c19State struct {
	ei       int   // next environment step
	eWake    int64 // >=0: environment sleeps until this time
	ch       string
	chFull   bool
	deadline int64
	now      int64
	ext      string
	ret      string // non-empty: SendRequest has returned this class; it still has to read the clock
	armed    bool   // the timeout timer exists (it is created after the request was published; time may pass before)
	rearm    int64  // >0: a timeout pre-response was read; the new timer (now + rearm) is not created yet
}

// c19Model explores every interleaving of the environment, the clock and SendRequest and returns the set of
// allowed outcomes "class|extension callbacks|elapsed virtual time at which the caller reads the clock".
func c19Model(script []string) map[string]bool {
	out := map[string]bool{}
	seen := map[c19State]bool{}
	var rec func(s c19State)
	rec = func(s c19State) {
		if seen[s] {
			return
		}
		seen[s] = true
		if s.ret != "" {
			// the caller reads the clock now, or later
			out[fmt.Sprintf("%s|%s|%v", s.ret, s.ext, time.Duration(s.now))] = true
		} else if !s.armed {
			n := s
			n.armed = true
			n.deadline = s.now + int64(c19Timeout)
			rec(n)
		} else if s.rearm > 0 {
			// time may pass between reading the pre-response and creating the new timer
			n := s
			n.deadline = s.now + s.rearm
			n.rearm = 0
			rec(n)
		} else {
			// SendRequest: timer
			if s.now >= s.deadline {
				n := s
				n.ret = "error:system.timeout"
				rec(n)
			}
			// SendRequest: message
			if s.chFull {
				m := s.ch
				n := s
				n.chFull, n.ch = false, ""
				if cl := c19Class(m); cl != "" {
					n.ret = cl
				} else {
					switch m {
					case "pre30":
						n.rearm = int64(30 * time.Millisecond)
						n.ext += "30ms,"
					case "pre3000":
						n.rearm = int64(3000 * time.Millisecond)
						n.ext += "3s,"
					}
				}
				rec(n)
			}
		}
		// environment
		if s.eWake >= 0 {
			if s.now >= s.eWake {
				n := s
				n.eWake = -1
				rec(n)
			}
		} else if s.ei < len(script) {
			st := script[s.ei]
			if d, ok := c19Sleep[st]; ok {
				n := s
				n.ei++
				n.eWake = s.now + int64(d)
				rec(n)
			} else if !s.chFull && s.ret == "" {
				n := s
				n.ei++
				n.chFull, n.ch = true, st
				rec(n)
			} else if s.ret != "" {
				// after the return the inbox is unsubscribed: the message goes nowhere
				n := s
				n.ei++
				rec(n)
			}
		}
		// clock: advance to the earliest pending deadline
		next := int64(-1)
		if s.ret == "" && s.armed && s.deadline > s.now {
			next = s.deadline
		}
		if s.eWake > s.now && (next < 0 || s.eWake < next) {
			next = s.eWake
		}
		if next >= 0 {
			n := s
			n.now = next
			rec(n)
		}
	}
	rec(c19State{eWake: -1})
	return out
}

type c19Case struct {
	Script []string
	Fault  string
}

func (c c19Case) String() string { return strings.Join(c.Script, ",") + "|" + c.Fault }

// c19Explore explores one case; returns observed outcomes and statistics.
func c19Explore(c c19Case, bound int, emit func(desc string)) (observed map[string]bool, ex *vsched.Explorer) {
	allowed := c19Model(c.Script)
	switch c.Fault {
	case "marshal", "subscribe", "publish":
		allowed = map[string]bool{"error:system.internalError||0s": true}
	}
	observed = map[string]bool{}
	body := func() {
		envnats.Reset()
		conn := envnats.New()
		inbox := make(chan string, 1)
		conn.OnPub = func(m envnats.Msg) {
			if m.Reply != "" {
				vsched.Send(inbox, m.Reply)
			}
		}
		switch c.Fault {
		case "subscribe":
			conn.FailSub = map[int]bool{0: true}
		case "publish":
			conn.FailPub = map[int]bool{0: true}
		}
		done := make(chan struct{}, 2)
		edone := make(chan struct{}, 1)
		vsched.Go("SR", func() {
			var req interface{} = map[string]int{"a": 1}
			if c.Fault == "marshal" {
				req = make(chan int)
			}
			ext := ""
			t0 := vsched.Now()
			resp := resprot.SendRequest(conn, "call.t.x.m", req, c19Timeout, func(d time.Duration) { ext += d.String() + "," })
			el := vsched.Now().Sub(t0)
			cls := "result"
			if resp.HasError() {
				cls = "error:" + resp.Error.Code
			} else if resp.HasResource() {
				cls = "resource"
			}
			if cls == "result" {
				var v map[string]string
				if err := resp.ParseResult(&v); err != nil || v["foo"] != "bar" {
					cls = "result-with-wrong-data"
				}
			}
			vsched.Emit(scen.Mon, fmt.Sprintf("returned %s|%s|%v", cls, ext, el))
			vsched.Send(done, struct{}{})
		})
		if c.Fault == "none" {
			vsched.Go("E", func() {
				ib := vsched.Recv(inbox)
				for _, st := range c.Script {
					if d, ok := c19Sleep[st]; ok {
						vsched.Sleep(d)
						continue
					}
					conn.Inject(ib, "", []byte(c19Msg[st]))
				}
				vsched.Send(edone, struct{}{})
			})
		}
		vsched.Recv(done)
		vsched.AwaitQuiescence()
		vsched.Emit(scen.Mon, fmt.Sprintf("activesubs %d", len(conn.ActiveSubs())))
	}
	ex = &vsched.Explorer{Bound: bound, Cache: true, Body: body, MaxViol: 5,
		Check: func(r *vsched.Result) []string {
			var v []string
			ret := ""
			unsub := 0
			subs := 0
			for _, e := range r.Events {
				switch {
				case strings.HasPrefix(e.Text, "returned "):
					ret = strings.Fields(e.Text)[1]
				case strings.HasPrefix(e.Text, "activesubs ") && e.Text != "activesubs 0":
					v = append(v, "after SendRequest returned the connection still holds a subscription: "+e.Text)
				case strings.HasPrefix(e.Text, "unsubscribe "):
					unsub++
				case strings.HasPrefix(e.Text, "sub "):
					subs++
				}
			}
			if r.Deadlock || r.Horizon || ret == "" {
				v = append(v, "SendRequest did not return: "+fmt.Sprint(r.Blocked))
				return v
			}
			for _, p := range r.Panics {
				v = append(v, "panic: "+firstLineOf(p))
			}
			observed[ret] = true
			if !allowed[ret] {
				var al []string
				for k := range allowed {
					al = append(al, k)
				}
				sort.Strings(al)
				v = append(v, fmt.Sprintf("SendRequest returned %q (class|extension callbacks|elapsed); the reference model allows only %v", ret, al))
			}
			if subs != unsub {
				v = append(v, fmt.Sprintf("inbox subscription not released: %d subscribe, %d unsubscribe", subs, unsub))
			}
			if c.Fault != "none" {
				for _, e := range r.Events {
					if strings.HasPrefix(e.Text, "returned ") && !strings.HasSuffix(e.Text, "|0s") {
						v = append(v, "a failing connection operation made SendRequest wait: "+e.Text)
					}
				}
			}
			return v
		}}
	ex.Explore()
	for _, vi := range ex.Violations {
		emit(vi.Desc + " choices=" + fmt.Sprint(vi.Choices))
	}
	return observed, ex
}

func runC19(c *seqCtx) {
	maxLen, bound := 3, 2
	if c.thorough {
		maxLen = 4
	}
	var scripts [][]string
	var rec func(cur []string)
	rec = func(cur []string) {
		scripts = append(scripts, cur)
		if len(cur) == maxLen {
			return
		}
		for _, a := range c19Steps {
			rec(append(append([]string{}, cur...), a))
		}
	}
	rec(nil)
	run := func(cs c19Case) {
		obs, ex := c19Explore(cs, bound, func(desc string) { c.Fail("C19", desc+" ["+cs.String()+"]", cs.String()) })
		var keys []string
		for k := range obs {
			keys = append(keys, k)
		}
		sort.Strings(keys)
		c.Eval(cs.String() + "=>" + strings.Join(keys, ";"))
		c.out.States += int64(ex.States())
		c.out.Transitions += ex.StepsTotal
		c.Extra("schedules", ex.Execs)
		c.Extra("model_outcomes", int64(len(c19Model(cs.Script))))
		c.Extra("observed_outcomes", int64(len(obs)))
		if !exhaustiveOK(ex) {
			c.out.Exhaustive = false
		}
	}
	for _, sc := range scripts {
		if !c.Mine() {
			continue
		}
		run(c19Case{Script: sc, Fault: "none"})
		if c.Stopped() {
			return
		}
	}
	c.Sample("script pre30,s200,result => allowed {error:system.timeout|30ms,|30ms ... result|30ms,|0s ...}")
	for _, f := range []string{"marshal", "subscribe", "publish"} {
		if c.Mine() {
			run(c19Case{Fault: f})
		}
	}
	// two consecutive calls, the first answered twice (a duplicate, or a second responder), explored at bound 2:
	// the second call must return the response to its own request
	if c.Mine() {
		ex := &vsched.Explorer{Bound: 2, Cache: true, MaxViol: 5,
			Body: func() {
				envnats.Reset()
				conn := envnats.New()
				inbox := make(chan string, 2)
				conn.OnPub = func(m envnats.Msg) {
					if m.Reply != "" {
						vsched.Send(inbox, m.Reply)
					}
				}
				vsched.Go("E", func() {
					ib := vsched.Recv(inbox)
					conn.Inject(ib, "", []byte(`{"result":1}`))
					conn.Inject(ib, "", []byte(`{"result":1001}`))
					ib = vsched.Recv(inbox)
					conn.Inject(ib, "", []byte(`{"result":2}`))
				})
				for i := 1; i <= 2; i++ {
					resp := resprot.SendRequest(conn, "call.t.x.m", nil, c19Timeout)
					got := "error"
					if !resp.HasError() {
						got = strings.TrimSpace(string(resp.Result))
					}
					vsched.Emit(scen.Mon, fmt.Sprintf("call %d returned %s", i, got))
				}
				vsched.AwaitQuiescence()
				vsched.Emit(scen.Mon, fmt.Sprintf("activesubs %d", len(conn.ActiveSubs())))
			},
			Check: func(r *vsched.Result) []string {
				var v []string
				for _, e := range r.Events {
					switch {
					// (the virtual clock may let either call time out: "error" is allowed, a foreign response is not)
					case strings.HasPrefix(e.Text, "call 1 returned ") && e.Text != "call 1 returned 1" && e.Text != "call 1 returned error",
						strings.HasPrefix(e.Text, "call 2 returned ") && e.Text != "call 2 returned 2" && e.Text != "call 2 returned error":
						v = append(v, "C19: two consecutive calls, the first answered twice: "+e.Text+" (want the first response to its own request)")
					case strings.HasPrefix(e.Text, "activesubs ") && e.Text != "activesubs 0":
						v = append(v, "C19: after two consecutive calls the connection still holds a subscription: "+e.Text)
					}
				}
				if r.Deadlock {
					v = append(v, "C19: two consecutive calls: deadlock")
				}
				for _, p := range r.Panics {
					v = append(v, "C19: two consecutive calls: panic: "+firstLineOf(p))
				}
				return v
			}}
		ok := ex.Explore()
		for _, vi := range ex.Violations {
			c.Fail("C19", strings.TrimPrefix(vi.Desc, "C19: ")+fmt.Sprintf(" choices=%v", vi.Choices), "|twocalls")
		}
		if !ok && len(ex.Violations) == 0 {
			c.out.Exhaustive = false
		}
		c.Extra("schedules", ex.Execs)
		c.Eval("twocalls")
	}
	// 50 consecutive calls leave no subscription behind
	if c.Mine() {
		r := scen.RunSeq(func() {
			conn := envnats.New()
			conn.Quiet = true
			inbox := make(chan string, 1)
			conn.OnPub = func(m envnats.Msg) { vsched.Send(inbox, m.Reply) }
			vsched.Go("E", func() {
				for i := 0; i < 50; i++ {
					ib := vsched.Recv(inbox)
					// every request is answered twice (a duplicate, or a second responder): the first one counts
					conn.Inject(ib, "", []byte(fmt.Sprintf(`{"result":%d}`, i)))
					conn.Inject(ib, "", []byte(fmt.Sprintf(`{"result":%d}`, 1000+i)))
				}
			})
			for i := 0; i < 50; i++ {
				resp := resprot.SendRequest(conn, "call.t.x.m", nil, c19Timeout)
				if resp.HasError() {
					vsched.Emit(scen.Mon, "call failed "+resp.Error.Code)
				} else if got := strings.TrimSpace(string(resp.Result)); got != fmt.Sprint(i) {
					vsched.Emit(scen.Mon, fmt.Sprintf("call failed: request #%d returned %s, the first response to it was %d", i, got, i))
				}
			}
			vsched.Emit(scen.Mon, fmt.Sprintf("activesubs %d of %d", len(conn.ActiveSubs()), len(conn.Subs)))
		})
		for _, e := range r.Events {
			if strings.HasPrefix(e.Text, "activesubs") && e.Text != "activesubs 0 of 50" {
				c.Fail("C19", "after 50 consecutive SendRequest calls: "+e.Text, "|fifty")
			}
			if strings.HasPrefix(e.Text, "call failed") {
				c.Fail("C19", "consecutive SendRequest call failed: "+e.Text, "|fifty")
			}
		}
		c.Eval("fifty")
	}
}

func exhaustiveOK(ex *vsched.Explorer) bool { return !ex.Capped }

func replayC19(input string) []string {
	f := strings.Split(input, "|")
	cs := c19Case{Fault: f[1]}
	if f[0] != "" {
		cs.Script = strings.Split(f[0], ",")
	}
	var out []string
	obs, ex := c19Explore(cs, 2, func(desc string) { out = append(out, "C19: "+desc) })
	if len(ex.Violations) > 0 {
		r, _ := ex.RunOne(ex.Violations[0].Choices, true)
		fmt.Println("--- trace of the first violating schedule")
		for _, l := range r.Trace {
			fmt.Println(l)
		}
		for _, e := range r.Events {
			fmt.Println("   obs", e.Step, e.Text)
		}
	}
	b, _ := json.Marshal(obs)
	fmt.Println("observed outcomes:", string(b))
	m, _ := json.Marshal(c19Model(cs.Script))
	fmt.Println("model outcomes:   ", string(m))
	return out
}

package main

import (
	"os"
	"path/filepath"

	"github.com/dgraph-io/badger"
)

var tmpDirs []string

// openDB opens a fresh BadgerDB in a scratch directory under $VERIF_WORK (removed by cleanupDBs).
func openDB() *badger.DB {
	base := os.Getenv("VERIF_WORK")
	if base == "" {
		base = os.TempDir()
	}
	base = filepath.Join(base, "db")
	os.MkdirAll(base, 0o755)
	dir, err := os.MkdirTemp(base, "b")
	if err != nil {
		fail("mkdir: %v", err)
	}
	tmpDirs = append(tmpDirs, dir)
	opts := badger.DefaultOptions(dir)
	opts.Logger = nil
	opts.SyncWrites = false
	opts.Truncate = true
	db, err := badger.Open(opts)
	if err != nil {
		fail("badger open: %v", err)
	}
	return db
}

func cleanupDBs() {
	for _, d := range tmpDirs {
		os.RemoveAll(d)
	}
}

// dbKeys returns all keys with their raw values.
func dbDump(db *badger.DB) map[string]string {
	out := map[string]string{}
	db.View(func(txn *badger.Txn) error {
		it := txn.NewIterator(badger.DefaultIteratorOptions)
		defer it.Close()
		for it.Rewind(); it.Valid(); it.Next() {
			item := it.Item()
			v, _ := item.ValueCopy(nil)
			out[string(item.KeyCopy(nil))] = string(v)
		}
		return nil
	})
	return out
}

func dbClear(db *badger.DB) {
	var keys [][]byte
	db.View(func(txn *badger.Txn) error {
		opts := badger.DefaultIteratorOptions
		opts.PrefetchValues = false
		it := txn.NewIterator(opts)
		defer it.Close()
		for it.Rewind(); it.Valid(); it.Next() {
			keys = append(keys, it.Item().KeyCopy(nil))
		}
		return nil
	})
	if len(keys) == 0 {
		return
	}
	db.Update(func(txn *badger.Txn) error {
		for _, k := range keys {
			txn.Delete(k)
		}
		return nil
	})
}

package main

import (
	"encoding/json"
	"fmt"
	"reflect"
	"strings"

	res "github.com/jirenius/go-res"
	"github.com/jirenius/go-res/resprot"
	"github.com/jirenius/go-res/store"

	"verif/ref"
)

func init() {
	seqChecks["c18"] = &seqCheck{run: runC18, replay: replayC18,
		rule: "every string of <=3 (4 thorough) code points over {a,\",\\,\\n,NUL,<,e-acute,U+2028,emoji} through Ref/SoftRef; every JSON value of depth<=2 through Marshal/UnmarshalDataValue; every JSON text from 27 templates x 5 whitespace placements through store.Value (classification vs generic decoding, Equal on all pairs and triples, every ordered pair of templates parsed into one variable); distinct = distinct (input, reference class) pairs"}
}

func c18Ref(s string, emit func(desc, input string)) {
	in := "ref\x1f" + s
	data, err := json.Marshal(res.Ref(s))
	if err != nil {
		emit(fmt.Sprintf("Ref(%q) does not marshal: %v", s, err), in)
		return
	}
	var g interface{}
	if err := json.Unmarshal(data, &g); err != nil {
		emit(fmt.Sprintf("Ref(%q) marshals to invalid JSON %q: %v", s, data, err), in)
		return
	}
	if !reflect.DeepEqual(g, map[string]interface{}{"rid": s}) {
		emit(fmt.Sprintf("Ref(%q) marshals to %s, which is not the reference object for that id", s, data), in)
	}
	var back res.Ref
	if err := json.Unmarshal(data, &back); err != nil || string(back) != s {
		emit(fmt.Sprintf("Ref(%q) -> %s -> Ref(%q) (err %v)", s, data, string(back), err), in)
	}
	data, err = json.Marshal(res.SoftRef(s))
	if err != nil {
		emit(fmt.Sprintf("SoftRef(%q) does not marshal: %v", s, err), in)
		return
	}
	g = nil
	if err := json.Unmarshal(data, &g); err != nil {
		emit(fmt.Sprintf("SoftRef(%q) marshals to invalid JSON %q: %v", s, data, err), in)
		return
	}
	if !reflect.DeepEqual(g, map[string]interface{}{"rid": s, "soft": true}) {
		emit(fmt.Sprintf("SoftRef(%q) marshals to %s, which is not the soft reference object for that id", s, data), in)
	}
	var sback res.SoftRef
	if err := json.Unmarshal(data, &sback); err != nil || string(sback) != s {
		emit(fmt.Sprintf("SoftRef(%q) -> %s -> SoftRef(%q) (err %v)", s, data, string(sback), err), in)
	}
	// store.Value sees it as a (soft) reference when the id is valid
	if res.Ref(s).IsValid() {
		var v store.Value
		if err := json.Unmarshal(data, &v); err != nil || v.Type != store.ValueTypeSoftReference || v.RID != s {
			emit(fmt.Sprintf("store.Value of SoftRef(%q): type %d rid %q err %v", s, v.Type, v.RID, err), in)
		}
	}
}

var (
	c18PrevData []byte
	c18PrevCopy string
	c18PrevText string
)

func c18Data(text string, emit func(desc, input string)) {
	in := "data\x1f" + text
	var v interface{}
	if err := json.Unmarshal([]byte(text), &v); err != nil {
		panic("bad generated json " + text)
	}
	data, err := resprot.MarshalDataValue(v)
	if err != nil {
		emit(fmt.Sprintf("MarshalDataValue(%s) failed: %v", text, err), in)
		return
	}
	// the result of the previous call is still held by the caller: it must not change under a later call
	if c18PrevData != nil && string(c18PrevData) != c18PrevCopy {
		emit(fmt.Sprintf("the bytes returned by MarshalDataValue(%s) changed from %q to %q when MarshalDataValue(%s) was called", c18PrevText, c18PrevCopy, c18PrevData, text), in)
	}
	c18PrevData, c18PrevCopy, c18PrevText = data, string(data), text
	_, isObj := v.(map[string]interface{})
	_, isArr := v.([]interface{})
	var g interface{}
	if err := json.Unmarshal(data, &g); err != nil {
		emit(fmt.Sprintf("MarshalDataValue(%s) gives invalid JSON %q", text, data), in)
		return
	}
	if isObj || isArr {
		if !reflect.DeepEqual(g, map[string]interface{}{"data": v}) {
			emit(fmt.Sprintf("MarshalDataValue(%s) = %s, want it wrapped in a data object", text, data), in)
		}
	} else if !reflect.DeepEqual(g, v) {
		emit(fmt.Sprintf("MarshalDataValue(%s) = %s, want the primitive itself", text, data), in)
	}
	var back interface{}
	if err := resprot.UnmarshalDataValue(data, &back); err != nil || !reflect.DeepEqual(back, v) {
		emit(fmt.Sprintf("UnmarshalDataValue(MarshalDataValue(%s)) = %v (err %v)", text, back, err), in)
	}
	// with surrounding whitespace
	var back2 interface{}
	if err := resprot.UnmarshalDataValue([]byte(" \n"+string(data)+" "), &back2); err != nil || !reflect.DeepEqual(back2, v) {
		emit(fmt.Sprintf("UnmarshalDataValue with surrounding whitespace of %s = %v (err %v)", data, back2, err), in)
	}
	// res.DataValue agrees
	d2, err := json.Marshal(res.DataValue[interface{}]{Data: v})
	_ = d2
	_ = err
}

type valueClass struct {
	typ   store.ValueType
	rid   string
	unsp  bool
	valid bool
	inner interface{}
}

// refValueClass is the protocol's classification of a JSON text, computed with generic decoding.
func refValueClass(text string) valueClass {
	var g interface{}
	if err := json.Unmarshal([]byte(text), &g); err != nil {
		return valueClass{}
	}
	switch x := g.(type) {
	case []interface{}:
		return valueClass{}
	case map[string]interface{}:
		known := 0
		for _, k := range []string{"rid", "soft", "action", "data"} {
			if _, ok := x[k]; ok {
				known++
			}
		}
		if known != len(x) {
			return valueClass{unsp: true} // extra members: the protocol is silent
		}
		if v, ok := x["rid"]; ok && v == nil {
			return valueClass{unsp: true}
		}
		if v, ok := x["action"]; ok && v == nil {
			return valueClass{unsp: true}
		}
		if rid, ok := x["rid"]; ok {
			_, a := x["action"]
			_, d := x["data"]
			s, isStr := rid.(string)
			if a || d || !isStr || s == "" || !ref.NameValid(strings.SplitN(s, "?", 2)[0]) {
				return valueClass{}
			}
			soft := false
			if sv, ok := x["soft"]; ok {
				b, isB := sv.(bool)
				if !isB {
					return valueClass{}
				}
				soft = b
			}
			if soft {
				return valueClass{valid: true, typ: store.ValueTypeSoftReference, rid: s}
			}
			return valueClass{valid: true, typ: store.ValueTypeReference, rid: s}
		}
		if _, ok := x["soft"]; ok && len(x) == 1 {
			return valueClass{}
		}
		if a, ok := x["action"]; ok {
			if _, d := x["data"]; d {
				return valueClass{}
			}
			if a != "delete" {
				return valueClass{}
			}
			if _, s := x["soft"]; s {
				return valueClass{unsp: true}
			}
			return valueClass{valid: true, typ: store.ValueTypeDelete}
		}
		if d, ok := x["data"]; ok {
			if _, s := x["soft"]; s {
				return valueClass{unsp: true}
			}
			switch d.(type) {
			case map[string]interface{}, []interface{}:
				return valueClass{valid: true, typ: store.ValueTypeData, inner: d}
			}
			return valueClass{valid: true, typ: store.ValueTypePrimitive, inner: d}
		}
		return valueClass{}
	}
	return valueClass{valid: true, typ: store.ValueTypePrimitive, inner: g}
}

var c18Templates = []string{
	`null`, `true`, `0`, `-1.5e3`, `""`, `"a\""`,
	`{"rid":"a.b"}`, `{"rid":"a.b","soft":true}`, `{"rid":"a.b","soft":false}`, `{"rid":"a.b?q=1"}`,
	`{"action":"delete"}`, `{"action":"x"}`,
	`{"data":1}`, `{"data":{"a":1}}`, `{"data":[1]}`, `{"data":null}`, `{"data":"s"}`,
	`{"rid":"a","x":1}`, `{"rid":"a","action":"delete"}`, `{"rid":"a","data":1}`, `{"action":"delete","data":1}`,
	`{"rid":""}`, `{"rid":"a..b"}`, `{"rid":"a.*"}`, `{"rid":1}`, `{"rid":"a","soft":1}`,
	`{}`, `[]`, `[1]`, `{"soft":true}`,
}

func c18Spaced(t string, mode int) string {
	switch mode {
	case 1:
		return " \t" + t
	case 2:
		return t + "\n "
	case 3:
		t = strings.Replace(t, "{", "{ ", 1)
		return strings.Replace(t, ":", ": ", 1)
	case 4:
		t = strings.Replace(t, "}", "\r\n}", 1)
		return strings.Replace(t, ",", " , ", 1)
	}
	return t
}

func c18Value(text string, emit func(desc, input string), excluded func()) (store.Value, bool) {
	in := "value\x1f" + text
	want := refValueClass(text)
	var v store.Value
	var err error
	// the input buffer is reused after the parse (as a decoder's read buffer is): the parsed value must not
	// alias it (json.Unmarshaler: "must copy the JSON data if it wishes to retain the data after returning")
	buf := []byte(text)
	pn := safe(func() { err = json.Unmarshal(buf, &v) })
	for i := range buf {
		buf[i] = '#'
	}
	if pn != "" {
		emit(fmt.Sprintf("store.Value parsing %q panicked: %s", text, pn), in)
		return v, false
	}
	if want.unsp {
		excluded()
		return v, false
	}
	if (err == nil) != want.valid {
		emit(fmt.Sprintf("store.Value accepts %q = %v, the protocol says valid = %v (err %v)", text, err == nil, want.valid, err), in)
		return v, false
	}
	if err != nil {
		return v, false
	}
	if v.Type != want.typ || v.RID != want.rid {
		emit(fmt.Sprintf("store.Value classifies %q as type %d rid %q, the protocol says type %d rid %q", text, v.Type, v.RID, want.typ, want.rid), in)
		return v, false
	}
	// what it marshals back to decodes to the same JSON value as the input (primitives from data objects: the primitive)
	out, _ := json.Marshal(v)
	var g1, g2 interface{}
	json.Unmarshal(out, &g1)
	json.Unmarshal([]byte(text), &g2)
	if want.typ == store.ValueTypePrimitive && want.inner != nil || want.typ == store.ValueTypePrimitive {
		g2 = want.inner
	}
	if !reflect.DeepEqual(g1, g2) {
		emit(fmt.Sprintf("store.Value of %q marshals back to %s", text, out), in)
	}
	if want.typ == store.ValueTypeData {
		var gi interface{}
		if json.Unmarshal(v.Inner, &gi) != nil || !reflect.DeepEqual(gi, want.inner) {
			emit(fmt.Sprintf("store.Value of %q has Inner %s", text, v.Inner), in)
		}
	}
	return v, true
}

func runC18(c *seqCtx) {
	emit := func(desc, input string) { c.Fail("C18", desc, input) }
	n := 3
	if c.thorough {
		n = 4
	}
	ref.Strings([]string{"a", "\"", "\\", "\n", "\x00", "<", "é", " ", "😀", "."}, n, func(s string) bool {
		if !c.Mine() {
			return true
		}
		c18Ref(s, emit)
		c.Eval("ref|" + s)
		return !c.Stopped()
	})
	c.Sample(`Ref("a\"\n") -> {"rid":"a\"\n"} -> back`)
	// JSON values of depth <= 2
	leaves := []string{`null`, `true`, `0`, `-1.5e3`, `""`, `"a\""`}
	level1 := append([]string{}, leaves...)
	level1 = append(level1, `[]`, `{}`)
	for _, a := range leaves {
		level1 = append(level1, `[`+a+`]`, `{"k":`+a+`}`)
		for _, b := range leaves {
			level1 = append(level1, `[`+a+`,`+b+`]`, `{"k":`+a+`,"data":`+b+`}`)
		}
	}
	level2 := append([]string{}, level1...)
	for _, a := range level1 {
		level2 = append(level2, `[`+a+`]`, `{"data":`+a+`}`, `{"k":[`+a+`,1]}`)
	}
	for _, t := range level2 {
		if !c.Mine() {
			continue
		}
		c18Data(t, emit)
		c.Eval("data|" + t)
	}
	c.Sample(`MarshalDataValue({"k":[[1],1]}) -> {"data":...} -> back`)
	// store.Value
	var parsed []store.Value
	var texts []string
	for _, t := range c18Templates {
		for mode := 0; mode < 5; mode++ {
			text := c18Spaced(t, mode)
			v, ok := c18Value(text, emit, c.Excluded)
			c.Eval("value|" + text)
			if ok {
				parsed = append(parsed, v)
				texts = append(texts, text)
			}
		}
	}
	c.Sample(`store.Value <- "{ \"rid\": \"a.b\",\"soft\":true}"`)
	// every ordered pair of templates parsed into one variable
	for _, t1 := range c18Templates {
		for _, t2 := range c18Templates {
			if c.Mine() {
				c18Reuse(t1, t2, emit)
				c.Eval("reuse|" + t1 + "|" + t2)
			}
		}
	}
	decode := func(v store.Value) interface{} {
		out, _ := json.Marshal(v)
		var g interface{}
		json.Unmarshal(out, &g)
		// an explicit "soft":false is the same RES value as no soft member
		if m, ok := g.(map[string]interface{}); ok && m["soft"] == false {
			delete(m, "soft")
		}
		return g
	}
	for i, a := range parsed {
		if !a.Equal(a) {
			emit(fmt.Sprintf("store.Value.Equal is not reflexive on %q", texts[i]), "value\x1f"+texts[i])
		}
		for j, b := range parsed {
			if !c.Mine() {
				continue
			}
			ab := a.Equal(b)
			if ab != b.Equal(a) {
				emit(fmt.Sprintf("store.Value.Equal is not symmetric on %q / %q", texts[i], texts[j]), "equal\x1f"+texts[i]+"\x1f"+texts[j])
			}
			if ab && !reflect.DeepEqual(decode(a), decode(b)) {
				emit(fmt.Sprintf("store.Value.Equal(%q, %q) is true but they are different JSON values", texts[i], texts[j]), "equal\x1f"+texts[i]+"\x1f"+texts[j])
			}
			c.Eval("")
			if ab {
				for k, d := range parsed {
					if b.Equal(d) && !a.Equal(d) {
						emit(fmt.Sprintf("store.Value.Equal is not transitive on %q / %q / %q", texts[i], texts[j], texts[k]), "equal\x1f"+texts[i]+"\x1f"+texts[j])
					}
				}
			}
		}
	}
}

// c18Reuse parses t1 and then t2 into the same store.Value variable (as encoding/json does for the elements
// of a reused slice): the second result must equal a fresh parse of t2, and the package-level
// store.DeleteValue must still be the delete action afterwards.
func c18Reuse(t1, t2 string, emit func(desc, input string)) {
	in := "reuse\x1f" + t1 + "\x1f" + t2
	var v, fresh store.Value
	e1 := json.Unmarshal([]byte(t1), &v)
	e2 := json.Unmarshal([]byte(t2), &v)
	ef := json.Unmarshal([]byte(t2), &fresh)
	_ = e1
	if (e2 == nil) != (ef == nil) {
		emit(fmt.Sprintf("store.Value: parsing %q after %q into the same variable gives err=%v, a fresh parse gives err=%v", t2, t1, e2, ef), in)
		return
	}
	if e2 == nil {
		a, _ := json.Marshal(v)
		b, _ := json.Marshal(fresh)
		// (the RID field is only meaningful for references: a stale one on another type is not read by anything)
		isRef := fresh.Type == store.ValueTypeReference || fresh.Type == store.ValueTypeSoftReference
		if v.Type != fresh.Type || (isRef && v.RID != fresh.RID) || string(a) != string(b) || !v.Equal(fresh) || !fresh.Equal(v) {
			emit(fmt.Sprintf("store.Value: parsing %q after %q into the same variable gives type %d rid %q %s, a fresh parse gives type %d rid %q %s", t2, t1, v.Type, v.RID, a, fresh.Type, fresh.RID, b), in)
		}
	}
	if out, err := json.Marshal(store.DeleteValue); err != nil || string(out) != `{"action":"delete"}` {
		emit(fmt.Sprintf("store.DeleteValue marshals to %q (err %v) after parsing %q and %q into one variable", out, err, t1, t2), in)
	}
	var d store.Value
	if err := json.Unmarshal([]byte(`{"action":"delete"}`), &d); err != nil || d.Type != store.ValueTypeDelete {
		emit(fmt.Sprintf("a delete action no longer parses as one (type %d, err %v) after parsing %q and %q into one variable", d.Type, err, t1, t2), in)
	} else if out, _ := json.Marshal(d); string(out) != `{"action":"delete"}` {
		emit(fmt.Sprintf("a parsed delete action marshals to %q after parsing %q and %q into one variable", out, t1, t2), in)
	}
}

func replayC18(input string) []string {
	f := strings.Split(input, "\x1f")
	var out []string
	emit := func(desc, _ string) { out = append(out, "C18: "+desc) }
	switch f[0] {
	case "ref":
		c18Ref(f[1], emit)
	case "data":
		c18Data(f[1], emit)
	case "value":
		c18Value(f[1], emit, func() {})
	case "reuse":
		c18Reuse(f[1], f[2], emit)
	case "equal":
		var a, b store.Value
		json.Unmarshal([]byte(f[1]), &a)
		json.Unmarshal([]byte(f[2]), &b)
		if a.Equal(b) != b.Equal(a) {
			emit("Equal not symmetric", "")
		}
	}
	return out
}

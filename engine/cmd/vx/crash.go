package main

import (
	"bufio"
	"encoding/json"
	"flag"
	"fmt"
	"net/url"
	"os"
	"os/exec"
	"path/filepath"
	"regexp"
	"sort"
	"strconv"
	"strings"
	"time"

	"github.com/dgraph-io/badger"
	"github.com/jirenius/go-res/store/badgerstore"
)

// E4 (DESIGN.md 2.5): every crash image of a recorded write history of the real badgerstore.

type cwStep struct {
	Kind string // init create update delete reopen close
	ID   string
	N    int
	K    string
}

var crashWorkloads = map[string][]cwStep{
	"W1": {{Kind: "init"}, {Kind: "create", ID: "c", N: 3, K: "kc"}, {Kind: "update", ID: "a", N: 11, K: "kz"}, {Kind: "delete", ID: "b"}, {Kind: "init"}, {Kind: "close"}},
	"W2": {{Kind: "init"}, {Kind: "delete", ID: "a"}, {Kind: "reopen"}, {Kind: "init"}, {Kind: "update", ID: "b", N: 22, K: "kb2"}, {Kind: "close"}},
	"W4": {{Kind: "create", ID: "a", N: 7, K: "k7"}, {Kind: "create", ID: "b", N: 8, K: ""}, {Kind: "init"}, {Kind: "delete", ID: "a"}, {Kind: "reopen"}, {Kind: "init"}, {Kind: "close"}},
	// W5: an Init whose seed set is larger than one BadgerDB transaction (the database is opened with small
	// tables for this workload): it must seed everything or nothing, at every kill point
	"W5": {{Kind: "create", ID: "x", N: 1, K: "kx"}, {Kind: "biginit"}, {Kind: "create", ID: "y", N: 2, K: "ky"}, {Kind: "close"}},
	"W3": {{Kind: "create", ID: "z", N: 9, K: "kz"}, {Kind: "init"}, {Kind: "delete", ID: "z"}, {Kind: "create", ID: "a", N: 5, K: "k5"}, {Kind: "reopen"}, {Kind: "init"}, {Kind: "create", ID: "c", N: 3, K: "@"}, {Kind: "close"}},
}

const cwBigSeeds = 2500

func cwBigInit(st *badgerstore.Store) error {
	return st.Init(func(add func(id string, v interface{})) error {
		for i := 0; i < cwBigSeeds; i++ {
			add(fmt.Sprintf("s%04d", i), cwValue(i, ""))
		}
		return nil
	})
}

var cwSeeds = []cwStep{{ID: "a", N: 1, K: "ka"}, {ID: "b", N: 2, K: "kb"}}

// cwValue: k "" = no k member (not indexed by ik), k "@" = a k member holding the empty string (indexed under
// the empty, non-nil key)
func cwValue(n int, k string) map[string]interface{} {
	m := map[string]interface{}{"n": float64(n)}
	if k == "@" {
		m["k"] = ""
	} else if k != "" {
		m["k"] = k
	}
	return m
}

type cwModel struct {
	vals     map[string]string // id -> "n/k"
	initDone bool
}

func (m cwModel) clone() cwModel {
	n := cwModel{vals: map[string]string{}, initDone: m.initDone}
	for k, v := range m.vals {
		n.vals[k] = v
	}
	return n
}

func (m cwModel) String() string {
	var ids []string
	for id, v := range m.vals {
		ids = append(ids, id+"="+v)
	}
	sort.Strings(ids)
	return fmt.Sprintf("{%s init=%v}", strings.Join(ids, " "), m.initDone)
}

// apply one step to the model (the store's documented semantics); ok tells whether the call succeeds.
func (m cwModel) apply(s cwStep) (cwModel, bool) {
	n := m.clone()
	switch s.Kind {
	case "init":
		if !n.initDone {
			for _, sd := range cwSeeds {
				if _, ok := n.vals[sd.ID]; !ok {
					n.vals[sd.ID] = fmt.Sprintf("%d/%s", sd.N, sd.K)
				}
			}
			n.initDone = true
		}
		return n, true
	case "biginit":
		// applied: everything seeded (whether the call succeeds depends on BadgerDB's transaction limit: the
		// judge takes that from the acknowledgement)
		if !n.initDone {
			for i := 0; i < cwBigSeeds; i++ {
				id := fmt.Sprintf("s%04d", i)
				if _, ok := n.vals[id]; !ok {
					n.vals[id] = fmt.Sprintf("%d/", i)
				}
			}
			n.initDone = true
		}
		return n, true
	case "create":
		if _, ok := n.vals[s.ID]; ok {
			return n, false
		}
		n.vals[s.ID] = fmt.Sprintf("%d/%s", s.N, s.K)
		return n, true
	case "update":
		if _, ok := n.vals[s.ID]; !ok {
			return n, false
		}
		n.vals[s.ID] = fmt.Sprintf("%d/%s", s.N, s.K)
		return n, true
	case "delete":
		if _, ok := n.vals[s.ID]; !ok {
			return n, false
		}
		delete(n.vals, s.ID)
		return n, true
	}
	return n, true
}

// cwSmallTables makes one BadgerDB transaction hold about 1 600 entries (workload W5).
var cwSmallTables bool

func cwOpen(dir string) (*badger.DB, error) {
	opts := badger.DefaultOptions(dir)
	opts.Logger = nil
	opts.Truncate = true
	if cwSmallTables {
		opts.MaxTableSize = 1 << 20
	}
	return badger.Open(opts)
}

func cwIQ(qs *badgerstore.QueryStore, q url.Values) (*badgerstore.IndexQuery, error) {
	return &badgerstore.IndexQuery{Index: qs.Index(q.Get("idx")), KeyPrefix: []byte(q.Get("prefix")), Limit: -1}, nil
}

func cwStores(db *badger.DB, prefix string) (*badgerstore.Store, *badgerstore.QueryStore) {
	st := badgerstore.NewStore(db).SetPrefix(prefix)
	qs := badgerstore.NewQueryStore(st, cwIQ)
	qs.AddIndex(badgerstore.Index{Name: "ik", Key: func(v interface{}) []byte {
		if s, ok := v.(map[string]interface{})["k"].(string); ok {
			return []byte(s)
		}
		return nil
	}})
	qs.AddIndex(badgerstore.Index{Name: "in", Key: func(v interface{}) []byte {
		if f, ok := v.(map[string]interface{})["n"].(float64); ok {
			return []byte(fmt.Sprintf("%03d", int(f)))
		}
		return nil
	}})
	return st, qs
}

func cwInit(st *badgerstore.Store) error {
	return st.Init(func(add func(id string, v interface{})) error {
		for _, sd := range cwSeeds {
			add(sd.ID, cwValue(sd.N, sd.K))
		}
		return nil
	})
}

// cmdCrashChild runs a workload, acknowledging every returned call on fd 3.
func cmdCrashChild(args []string) {
	fs := flag.NewFlagSet("crashchild", flag.ExitOnError)
	dir := fs.String("dir", "", "database directory")
	wl := fs.String("workload", "W1", "")
	prefix := fs.String("prefix", "", "")
	index := fs.Bool("index", false, "attach a QueryStore (index updates run without Flush)")
	fs.Parse(args)
	ack := os.NewFile(3, "ack")
	cwSmallTables = *wl == "W5"
	db, err := cwOpen(*dir)
	if err != nil {
		fail("open: %v", err)
	}
	mk := func() *badgerstore.Store {
		if *index {
			st, _ := cwStores(db, *prefix)
			return st
		}
		return badgerstore.NewStore(db).SetPrefix(*prefix)
	}
	st := mk()
	for i, s := range crashWorkloads[*wl] {
		var err error
		switch s.Kind {
		case "init":
			err = cwInit(st)
		case "biginit":
			err = cwBigInit(st)
		case "create":
			wt := st.Write(s.ID)
			err = wt.Create(cwValue(s.N, s.K))
			wt.Close()
		case "update":
			wt := st.Write(s.ID)
			err = wt.Update(cwValue(s.N, s.K))
			wt.Close()
		case "delete":
			wt := st.Write(s.ID)
			err = wt.Delete()
			wt.Close()
		case "reopen":
			if *index {
				time.Sleep(20 * time.Millisecond) // let queued index updates drain before the clean close
			}
			db.Close()
			db, err = cwOpen(*dir)
			st = mk()
		case "close":
			if *index {
				time.Sleep(20 * time.Millisecond)
			}
			err = db.Close()
		}
		r := "ok"
		if err != nil {
			r = "err"
		}
		fmt.Fprintf(ack, "ACK %d %s\n", i, r)
	}
}

type fileOp struct {
	Kind string // create write truncate rename unlink ack sync
	Path string
	To   string
	Off  int64
	Data []byte
	Size int64
	Ack  int
	AckR string
}

var hexRe = regexp.MustCompile(`\\x([0-9a-f]{2})`)

func unhex(s string) string {
	return hexRe.ReplaceAllStringFunc(s, func(m string) string {
		v, _ := strconv.ParseUint(m[2:], 16, 8)
		return string([]byte{byte(v)})
	})
}

// parseStrace turns the strace log into the list of operations on files below dir, ordered by completion.
func parseStrace(logPath, dir string) ([]fileOp, error) {
	f, err := os.Open(logPath)
	if err != nil {
		return nil, err
	}
	defer f.Close()
	sc := bufio.NewScanner(f)
	sc.Buffer(make([]byte, 1<<20), 1<<28)
	pending := map[string]string{}
	type fdKey struct {
		path string
		fd   int
	}
	offsets := map[fdKey]int64{}
	sizes := map[string]int64{}
	var ops []fileOp
	lineRe := regexp.MustCompile(`^(\d+)\s+(.*)$`)
	callRe := regexp.MustCompile(`^(\w+)\((.*)\)\s+= (-?\d+|0x[0-9a-f]+)(<[^>]*>)?(.*)$`)
	fdRe := regexp.MustCompile(`^(\d+)<([^>]*)>`)
	strRe := regexp.MustCompile(`"((?:[^"\\]|\\.)*)"`)
	for sc.Scan() {
		m := lineRe.FindStringSubmatch(sc.Text())
		if m == nil {
			continue
		}
		pid, rest := m[1], m[2]
		if strings.HasSuffix(rest, "<unfinished ...>") {
			pending[pid] = strings.TrimSuffix(rest, " <unfinished ...>")
			continue
		}
		if strings.HasPrefix(rest, "<... ") {
			i := strings.Index(rest, "resumed>")
			rest = pending[pid] + rest[i+8:]
			delete(pending, pid)
		}
		cm := callRe.FindStringSubmatch(rest)
		if cm == nil {
			continue
		}
		name, argstr, ret := cm[1], cm[2], cm[3]
		if strings.HasPrefix(ret, "-") {
			continue
		}
		under := func(p string) bool { return strings.HasPrefix(p, dir+"/") }
		switch name {
		case "openat":
			strs := strRe.FindAllStringSubmatch(argstr, -1)
			if len(strs) == 0 {
				continue
			}
			p := unhex(strs[0][1])
			if !filepath.IsAbs(p) {
				continue
			}
			if !under(p) {
				continue
			}
			fd, _ := strconv.Atoi(ret)
			_, existed := sizes[p]
			if strings.Contains(argstr, "O_CREAT") && !existed {
				sizes[p] = 0
				ops = append(ops, fileOp{Kind: "create", Path: p})
			}
			if strings.Contains(argstr, "O_TRUNC") {
				sizes[p] = 0
				ops = append(ops, fileOp{Kind: "truncate", Path: p, Size: 0})
			}
			offsets[fdKey{p, fd}] = 0
			if strings.Contains(argstr, "O_APPEND") {
				offsets[fdKey{p, fd}] = sizes[p]
			}
		case "write", "pwrite64":
			fm := fdRe.FindStringSubmatch(argstr)
			if fm == nil {
				continue
			}
			fd, _ := strconv.Atoi(fm[1])
			p := unhex(fm[2])
			sm := strRe.FindStringSubmatch(argstr)
			if sm == nil {
				continue
			}
			data := []byte(unhex(sm[1]))
			n, _ := strconv.Atoi(ret)
			if n < len(data) {
				data = data[:n]
			}
			if strings.HasSuffix(p, "/ack") && strings.HasPrefix(string(data), "ACK ") {
				var i int
				var r string
				fmt.Sscanf(string(data), "ACK %d %s", &i, &r)
				ops = append(ops, fileOp{Kind: "ack", Ack: i, AckR: r})
				continue
			}
			if !under(p) {
				continue
			}
			if len(data) != n {
				return nil, fmt.Errorf("strace truncated a write of %d bytes to %s", n, p)
			}
			k := fdKey{p, fd}
			off := offsets[k]
			if name == "pwrite64" {
				parts := strings.Split(argstr, ", ")
				off, _ = strconv.ParseInt(parts[len(parts)-1], 10, 64)
			} else {
				offsets[k] = off + int64(n)
			}
			if off+int64(n) > sizes[p] {
				sizes[p] = off + int64(n)
			}
			ops = append(ops, fileOp{Kind: "write", Path: p, Off: off, Data: data})
		case "lseek":
			fm := fdRe.FindStringSubmatch(argstr)
			if fm == nil {
				continue
			}
			fd, _ := strconv.Atoi(fm[1])
			p := unhex(fm[2])
			if under(p) {
				o, _ := strconv.ParseInt(ret, 10, 64)
				offsets[fdKey{p, fd}] = o
			}
		case "ftruncate":
			fm := fdRe.FindStringSubmatch(argstr)
			if fm == nil {
				continue
			}
			p := unhex(fm[2])
			if under(p) {
				parts := strings.Split(argstr, ", ")
				sz, _ := strconv.ParseInt(parts[len(parts)-1], 10, 64)
				sizes[p] = sz
				ops = append(ops, fileOp{Kind: "truncate", Path: p, Size: sz})
			}
		case "rename", "renameat", "renameat2":
			strs := strRe.FindAllStringSubmatch(argstr, -1)
			if len(strs) >= 2 {
				a, b := unhex(strs[0][1]), unhex(strs[1][1])
				if under(a) || under(b) {
					sizes[b] = sizes[a]
					delete(sizes, a)
					ops = append(ops, fileOp{Kind: "rename", Path: a, To: b})
				}
			}
		case "unlink", "unlinkat":
			strs := strRe.FindAllStringSubmatch(argstr, -1)
			if len(strs) >= 1 {
				p := unhex(strs[0][1])
				if under(p) {
					delete(sizes, p)
					ops = append(ops, fileOp{Kind: "unlink", Path: p})
				}
			}
		case "fsync", "fdatasync":
			fm := fdRe.FindStringSubmatch(argstr)
			if fm != nil && under(unhex(fm[2])) {
				ops = append(ops, fileOp{Kind: "sync", Path: unhex(fm[2])})
			}
		case "mmap":
			if strings.Contains(argstr, "PROT_WRITE") && strings.Contains(argstr, "MAP_SHARED") && strings.Contains(unhex(argstr), dir+"/") {
				return nil, fmt.Errorf("writable shared mapping of a database file: the syscall log would be incomplete")
			}
		}
	}
	return ops, sc.Err()
}

type image map[string][]byte

func (im image) apply(op fileOp, cut int) {
	switch op.Kind {
	case "create":
		if _, ok := im[op.Path]; !ok {
			im[op.Path] = []byte{}
		}
	case "write":
		d := op.Data
		if cut >= 0 && cut < len(d) {
			d = d[:cut]
		}
		b := im[op.Path]
		end := int(op.Off) + len(d)
		if end > len(b) {
			nb := make([]byte, end)
			copy(nb, b)
			b = nb
		} else {
			b = append([]byte{}, b...)
		}
		copy(b[op.Off:], d)
		im[op.Path] = b
	case "truncate":
		b := im[op.Path]
		if int(op.Size) <= len(b) {
			im[op.Path] = b[:op.Size]
		} else {
			nb := make([]byte, op.Size)
			copy(nb, b)
			im[op.Path] = nb
		}
	case "rename":
		im[op.To] = im[op.Path]
		delete(im, op.Path)
	case "unlink":
		delete(im, op.Path)
	}
}

func (im image) clone() image {
	n := image{}
	for k, v := range im {
		n[k] = v
	}
	return n
}

func (im image) materialize(srcDir, dstDir string) error {
	os.RemoveAll(dstDir)
	if err := os.MkdirAll(dstDir, 0o755); err != nil {
		return err
	}
	for p, b := range im {
		rel := strings.TrimPrefix(p, srcDir+"/")
		if filepath.Base(rel) == "LOCK" {
			continue
		}
		if err := os.WriteFile(filepath.Join(dstDir, rel), b, 0o600); err != nil {
			return err
		}
	}
	return nil
}

// cwContent reads the store content of a recovered database.
func cwContent(db *badger.DB, prefix string) (cwModel, []string) {
	m := cwModel{vals: map[string]string{}}
	var other []string
	p := ""
	if prefix != "" {
		p = prefix + "."
	}
	for k, v := range dbDump(db) {
		switch {
		case k == "$"+p+"init":
			m.initDone = true
		case strings.HasPrefix(k, "ik:") || strings.HasPrefix(k, "in:"):
			other = append(other, k)
		case strings.HasPrefix(k, p):
			var val map[string]interface{}
			if err := json.Unmarshal([]byte(v), &val); err != nil {
				m.vals[k[len(p):]] = "CORRUPT:" + v
				continue
			}
			ks, has := val["k"].(string)
			if has && ks == "" {
				ks = "@"
			}
			n, _ := val["n"].(float64)
			m.vals[k[len(p):]] = fmt.Sprintf("%d/%s", int(n), ks)
		default:
			other = append(other, k)
		}
	}
	return m, other
}

// cwJudge opens one crash image and checks the C12 oracle. acked = number of acknowledged steps.
func cwJudge(imgDir, wl, prefix string, acked int, ackResults []string, emit func(string)) string {
	steps := crashWorkloads[wl]
	lo := cwModel{vals: map[string]string{}}
	for i := 0; i < acked && i < len(steps); i++ {
		var ok bool
		if steps[i].Kind == "biginit" {
			// either everything (acknowledged ok) or nothing (acknowledged as failed)
			if i < len(ackResults) && ackResults[i] == "ok" {
				lo, _ = lo.apply(steps[i])
			}
			continue
		}
		lo, ok = lo.apply(steps[i])
		want := "ok"
		if !ok {
			want = "err"
		}
		if i < len(ackResults) && ackResults[i] != want {
			emit(fmt.Sprintf("step %d (%+v) was acknowledged as %s, the model says %s", i, steps[i], ackResults[i], want))
		}
	}
	hi := lo
	if acked < len(steps) {
		hi, _ = lo.apply(steps[acked])
	}
	cwSmallTables = wl == "W5"
	db, err := cwOpen(imgDir)
	if err != nil {
		emit(fmt.Sprintf("the database does not open after the crash: %v", err))
		return "open-error"
	}
	defer db.Close()
	got, _ := cwContent(db, prefix)
	sig := "lo"
	switch got.String() {
	case lo.String():
	case hi.String():
		sig = "hi"
	default:
		if wl == "W5" {
			emit(fmt.Sprintf("recovered content has %d values (init marker %v): neither the state after the %d acknowledged calls (%d values) nor that with the call in flight applied (%d values) - Init must seed everything or nothing", len(got.vals), got.initDone, acked, len(lo.vals), len(hi.vals)))
		} else {
			emit(fmt.Sprintf("recovered content %s is neither the state after the %d acknowledged calls %s nor that with the call in flight applied %s", got, acked, lo, hi))
		}
		return "mismatch"
	}
	if wl == "W5" {
		return sig // the re-Init and index checks are those of W1-W4
	}
	// Init again: seeds exactly once over all restarts
	st, qs := cwStores(db, prefix)
	if err := cwInit(st); err != nil {
		emit(fmt.Sprintf("Init after recovery failed: %v", err))
	}
	want, _ := got.apply(cwStep{Kind: "init"})
	after, _ := cwContent(db, prefix)
	if after.String() != want.String() {
		emit(fmt.Sprintf("Init after recovery turned %s into %s, want %s (seed exactly once, never resurrect deleted seeds)", got, after, want))
	}
	// RebuildIndexes: every query agrees with the stored values
	if err := qs.RebuildIndexes(); err != nil {
		emit(fmt.Sprintf("RebuildIndexes failed on the recovered database (prefix %q): %v", prefix, err))
		return sig + "/rebuild-error"
	}
	for _, idx := range []string{"ik", "in"} {
		for _, pfx := range []string{"", "k", "00"} {
			res, err := qs.Query(url.Values{"idx": {idx}, "prefix": {pfx}})
			ids, _ := res.([]string)
			type ent struct{ key, id string }
			var es []ent
			for id, v := range after.vals {
				f := strings.SplitN(v, "/", 2)
				key := f[1]
				if idx == "in" {
					n, _ := strconv.Atoi(f[0])
					key = fmt.Sprintf("%03d", n)
				}
				if idx == "ik" && key == "" {
					continue // no k member: not indexed
				}
				if idx == "ik" && key == "@" {
					key = "" // indexed under the empty key
				}
				if !strings.HasPrefix(key, pfx) {
					continue
				}
				es = append(es, ent{key, id})
			}
			sort.Slice(es, func(i, j int) bool {
				if es[i].key != es[j].key {
					return es[i].key < es[j].key
				}
				return es[i].id < es[j].id
			})
			var wantIDs []string
			for _, e := range es {
				wantIDs = append(wantIDs, e.id)
			}
			if err != nil || !sameIDs(ids, wantIDs) {
				emit(fmt.Sprintf("after RebuildIndexes query index %s prefix %q returns %v (err %v), the stored values give %v", idx, pfx, ids, err, wantIDs))
			}
		}
	}
	return sig
}

func init() {
	seqChecks["c12"] = &seqCheck{run: runC12, replay: nil,
		rule: "workloads W1-W4 x prefix {'ba' (sharing its characters with the ids), empty} x {plain store, store with QueryStore} recorded once each under strace, plus W5 (an Init with 2 500 seeds against a database whose transactions hold about 1 600 entries: all or nothing); every prefix of the recorded file-operation log (a process kill between two syscalls) and, for every value-log write, torn images cut at 1, n/2, n-1 (quick) / every byte (thorough), each reopened with the real BadgerDB and judged against the acknowledgements that precede the crash point; distinct = images whose recovered content differs"}
}

func runC12(c *seqCtx) {
	base := os.Getenv("VERIF_WORK")
	if base == "" {
		base = os.TempDir()
	}
	root, err := os.MkdirTemp(filepath.Join(base), "crash")
	if err != nil {
		os.MkdirAll(base, 0o755)
		root, err = os.MkdirTemp(base, "crash")
		if err != nil {
			fail("mkdir: %v", err)
		}
	}
	defer os.RemoveAll(root)
	self, _ := os.Executable()
	distinct := map[string]bool{}
	n := 0
	for _, wl := range []string{"W1", "W2", "W3", "W4", "W5"} {
		// the set prefix shares its characters with the ids (a, b, ba. ...): prefix handling must cut by length
		for _, prefix := range []string{"ba", ""} {
			for _, index := range []bool{false, true} {
				if wl == "W5" && (prefix != "" || index) {
					continue // the oversized Init is recorded once
				}
				n++
				rec := filepath.Join(root, fmt.Sprintf("rec%d", n))
				dbdir := filepath.Join(rec, "db")
				os.MkdirAll(dbdir, 0o755)
				logPath := filepath.Join(rec, "strace.log")
				ackf, _ := os.Create(filepath.Join(rec, "ack"))
				cmd := exec.Command("strace", "-f", "-y", "-xx", "-s", "16777216", "-o", logPath,
					"-e", "trace=openat,write,pwrite64,lseek,ftruncate,fsync,fdatasync,rename,renameat,renameat2,unlink,unlinkat,mmap",
					self, "crashchild", "-dir", dbdir, "-workload", wl, "-prefix", prefix, fmt.Sprintf("-index=%v", index))
				cmd.ExtraFiles = []*os.File{ackf}
				out, err := cmd.CombinedOutput()
				ackf.Close()
				if err != nil {
					fail("recording %s failed: %v\n%s", wl, err, out)
				}
				ops, err := parseStrace(logPath, dbdir)
				if err != nil {
					fail("parsing the syscall log: %v", err)
				}
				nacks := 0
				for _, o := range ops {
					if o.Kind == "ack" {
						nacks++
					}
				}
				if nacks != len(crashWorkloads[wl]) {
					fail("recorded run of %s acknowledged %d of %d steps", wl, nacks, len(crashWorkloads[wl]))
				}
				c.Extra("recorded_file_ops", int64(len(ops)))
				cfgName := fmt.Sprintf("%s|prefix=%q|index=%v", wl, prefix, index)
				im := image{}
				acked := 0
				var ackRes []string
				imgN := 0
				judge := func(img image, desc string) {
					if !c.Mine() {
						return
					}
					imgN++
					idir := filepath.Join(rec, fmt.Sprintf("img-%d", c.shard))
					if err := img.materialize(dbdir, idir); err != nil {
						fail("materialize: %v", err)
					}
					in := cfgName + "|" + desc
					sig := cwJudge(idir, wl, prefix, acked, ackRes, func(d string) { c.Fail("C12", d+" [crash point: "+in+"]", in) })
					c.out.Evaluations++
					c.out.Transitions++
					key := cfgName + fmt.Sprint(acked) + sig
					if !distinct[key] {
						distinct[key] = true
						c.out.DistinctNontrivial++
					}
					c.Extra("images_"+strings.SplitN(sig, "/", 2)[0], 1)
				}
				judge(im, "before any operation")
				for i, op := range ops {
					if c.Stopped() {
						return
					}
					if op.Kind == "ack" {
						acked = op.Ack + 1
						ackRes = append(ackRes, op.AckR)
						continue
					}
					if op.Kind == "sync" {
						continue
					}
					// torn writes: only for the value log, whose recovery (truncate to the last complete
					// transaction) is what the property's crash consistency rests on. A process kill cannot tear
					// a small single write(2); a torn MANIFEST (power loss) makes BadgerDB itself refuse to open,
					// which is outside go-res and outside the property.
					if op.Kind == "write" && len(op.Data) > 1 && strings.HasSuffix(op.Path, ".vlog") {
						cuts := []int{1, len(op.Data) / 2, len(op.Data) - 1}
						if c.thorough {
							cuts = cuts[:0]
							for b := 1; b < len(op.Data); b++ {
								cuts = append(cuts, b)
							}
						}
						for _, cut := range cuts {
							t := im.clone()
							t.apply(op, cut)
							judge(t, fmt.Sprintf("op %d %s %s torn at byte %d of %d", i, op.Kind, filepath.Base(op.Path), cut, len(op.Data)))
						}
					}
					im.apply(op, -1)
					judge(im, fmt.Sprintf("after op %d %s %s", i, op.Kind, filepath.Base(op.Path)))
				}
				c.Sample(fmt.Sprintf("%s: %d file operations, %d acknowledgements", cfgName, len(ops), nacks))
			}
		}
	}
}

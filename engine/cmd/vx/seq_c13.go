package main

import (
	"bytes"
	"fmt"
	"net/url"
	"sort"
	"strconv"
	"strings"

	"github.com/dgraph-io/badger"
	"github.com/jirenius/go-res/store"
	"github.com/jirenius/go-res/store/badgerstore"

	"verif/scen"
	"verif/vsched"
)

func init() {
	seqChecks["c13"] = &seqCheck{run: runC13, replay: replayC13,
		rule: "every mutation history of <=3 operations (thorough: 4, the 4th over the reduced value set {nil, (k,k)} without two-mutation transactions) {Create, Update, Delete, two updates in one transaction, update+delete in one transaction} x ids {a,b,c} x values with key vectors {nil,empty,k,ka,l, a key containing the separator byte NUL, a key whose byte after the prefix k is 0xFF} x {nil,k} (two indexes), each on a fresh badgerstore + QueryStore under the scheduler; after Flush 16 basic queries per history and the full set (2 indexes x 7 prefixes x 3 filters x 4 offsets x 4 limits x 2 directions = 1344) on every distinct content of depth<=2 are compared with a sorted/filtered/windowed scan of the model map; OnQueryChange count, the query result inside the callback and Events() are checked for every mutation (C14); distinct = distinct (history, result vector)"}
}

type c13Val struct{ k1, k2 string } // "" = nil key

// "@" stands for a present but empty key (an empty, non-nil index key)
// the last value's key holds the index's own separator byte (NUL); no other key is a prefix of it
var c13Vals = []c13Val{{"", ""}, {"k", ""}, {"ka", ""}, {"l", ""}, {"", "k"}, {"k", "k"}, {"ka", "k"}, {"l", "k"}, {"@", ""}, {"@", "k"}, {"m\x00z", ""}, {"k#", ""}}

var c13AllVals = []int{0, 1, 2, 3, 4, 5, 6, 7, 8, 9, 10, 11}

// c13B maps the marker '#' of a key vector to the byte 0xFF (the stored JSON value keeps the marker: 0xFF is
// not valid UTF-8): a key whose byte after the prefix "k" is the largest possible one
func c13B(k string) string { return strings.ReplaceAll(k, "#", "\xff") }

func (v c13Val) value() map[string]interface{} {
	m := map[string]interface{}{"x": "y"}
	if v.k1 == "@" {
		m["k1"] = ""
	} else if v.k1 != "" {
		m["k1"] = v.k1
	}
	if v.k2 != "" {
		m["k2"] = v.k2
	}
	return m
}

type c13Op struct {
	Kind string // create update delete
	ID   string
	Val  int
}

func (o c13Op) String() string { return fmt.Sprintf("%s:%s:%d", o.Kind, o.ID, o.Val) }

func parseC13Ops(s string) []c13Op {
	var out []c13Op
	if s == "" {
		return out
	}
	for _, p := range strings.Split(s, ",") {
		f := strings.Split(p, ":")
		v, _ := strconv.Atoi(f[2])
		out = append(out, c13Op{f[0], f[1], v})
	}
	return out
}

type c13Query struct {
	Idx     string
	Prefix  string
	Filter  string // "", even, none
	Offset  int
	Limit   int
	Reverse bool
}

func (q c13Query) values() url.Values {
	return url.Values{"idx": {q.Idx}, "prefix": {q.Prefix}, "filter": {q.Filter}, "offset": {strconv.Itoa(q.Offset)}, "limit": {strconv.Itoa(q.Limit)}, "reverse": {strconv.FormatBool(q.Reverse)}}
}

func c13Filter(name string) func([]byte) bool {
	switch name {
	case "even":
		return func(k []byte) bool { return len(k)%2 == 0 }
	case "none":
		return func(k []byte) bool { return false }
	}
	return nil
}

func c13Key(idx string, v map[string]interface{}) []byte {
	f := "k1"
	if idx == "j" {
		f = "k2"
	}
	if s, ok := v[f].(string); ok {
		return []byte(c13B(s))
	}
	return nil
}

// reference: sorted, filtered, windowed scan of the model
func c13Ref(model map[string]c13Val, q c13Query) []string {
	type ent struct{ key, id string }
	var es []ent
	flt := c13Filter(q.Filter)
	for id, v := range model {
		k := v.k1
		if q.Idx == "j" {
			k = v.k2
		}
		if k == "" {
			continue
		}
		if k == "@" {
			k = ""
		}
		k = c13B(k)
		if !strings.HasPrefix(k, q.Prefix) {
			continue
		}
		if flt != nil && !flt([]byte(k)) {
			continue
		}
		es = append(es, ent{k, id})
	}
	sort.Slice(es, func(i, j int) bool {
		if c := bytes.Compare([]byte(es[i].key), []byte(es[j].key)); c != 0 {
			return c < 0
		}
		return es[i].id < es[j].id
	})
	if q.Reverse {
		for i, j := 0, len(es)-1; i < j; i, j = i+1, j-1 {
			es[i], es[j] = es[j], es[i]
		}
	}
	var out []string
	for i, e := range es {
		if i < q.Offset {
			continue
		}
		if q.Limit >= 0 && len(out) >= q.Limit {
			break
		}
		out = append(out, e.id)
	}
	return out
}

func c13IQ(qs *badgerstore.QueryStore, q url.Values) (*badgerstore.IndexQuery, error) {
	off, _ := strconv.Atoi(q.Get("offset"))
	lim, _ := strconv.Atoi(q.Get("limit"))
	// one IndexQuery value is reused for every query (its exported fields are set anew each time): a query
	// must depend on nothing a previous query left behind in it
	iq := c13SharedIQ
	iq.Index = qs.Index(q.Get("idx"))
	iq.KeyPrefix = []byte(q.Get("prefix"))
	iq.FilterKeys = c13Filter(q.Get("filter"))
	iq.Offset = off
	iq.Limit = lim
	iq.Reverse = q.Get("reverse") == "true"
	return iq, nil
}

var c13SharedIQ = &badgerstore.IndexQuery{}

func c13BasicQueries() []c13Query {
	var out []c13Query
	for _, idx := range []string{"i", "j"} {
		for _, p := range []string{"", "k"} {
			for _, rev := range []bool{false, true} {
				out = append(out, c13Query{idx, p, "", 0, -1, rev}, c13Query{idx, p, "", 1, 1, rev})
			}
		}
	}
	return out
}

func c13FullQueries() []c13Query {
	var out []c13Query
	for _, idx := range []string{"i", "j"} {
		for _, p := range []string{"", "k", "ka", "kab", "k\x00", "ka\x00a", "l"} {
			for _, f := range []string{"", "even", "none"} {
				for _, off := range []int{0, 1, 2, 5} {
					for _, lim := range []int{-1, 0, 1, 2} {
						for _, rev := range []bool{false, true} {
							out = append(out, c13Query{idx, p, f, off, lim, rev})
						}
					}
				}
			}
		}
	}
	return out
}

func sameIDs(a, b []string) bool {
	if len(a) != len(b) {
		return false
	}
	for i := range a {
		if a[i] != b[i] {
			return false
		}
	}
	return true
}

// c13Run executes one history on a fresh store (prefix optional) inside the scheduler and checks C13 and C14 oracles.
func c13Run(db *badger.DB, prefix string, ops []c13Op, queries []c13Query, emit func(prop, desc string)) (content string, sig string) {
	model := map[string]c13Val{}
	var sigs []string
	r := scen.RunSeq(func() {
		dbClear(db)
		st := badgerstore.NewStore(db).SetPrefix(prefix)
		qs := badgerstore.NewQueryStore(st, c13IQ)
		qs.AddIndex(badgerstore.Index{Name: "i", Key: func(v interface{}) []byte { return c13Key("i", v.(map[string]interface{})) }})
		qs.AddIndex(badgerstore.Index{Name: "j", Key: func(v interface{}) []byte { return c13Key("j", v.(map[string]interface{})) }})
		type qcRec struct {
			id            string
			before, after bool
			inCB          [][]string
			events        []bool
		}
		var qcs []qcRec
		probe := []c13Query{{"i", "", "", 0, -1, false}, {"j", "", "", 0, -1, false}, {"i", "k", "", 0, -1, false}, {"i", "l", "", 0, 1, false}, {"i", "", "even", 0, -1, false}}
		qs.OnQueryChange(func(qc store.QueryChange) {
			rec := qcRec{id: qc.ID(), before: qc.Before() != nil, after: qc.After() != nil}
			for _, q := range probe {
				res, err := qs.Query(q.values())
				ids, _ := res.([]string)
				if err != nil {
					ids = []string{"ERR " + err.Error()}
				}
				rec.inCB = append(rec.inCB, ids)
				_, affected, _ := qc.Events(q.values())
				rec.events = append(rec.events, affected)
			}
			qcs = append(qcs, rec)
		})
		inited := false
		for oi, op := range ops {
			before, had := model[op.ID]
			beforeModel := map[string]c13Val{}
			for k, v := range model {
				beforeModel[k] = v
			}
			var wt store.WriteTxn
			if op.Kind != "init" {
				wt = st.Write(op.ID)
			}
			var err error
			ok := false
			multi := op.Kind == "upup" || op.Kind == "updel"
			multiChanges := 0
			switch op.Kind {
			case "init":
				// Store.Init seeds the id unless it exists already, once per store
				err = st.Init(func(add func(id string, v interface{})) error {
					add(op.ID, c13Vals[op.Val].value())
					return nil
				})
				if err != nil {
					emit("C13", fmt.Sprintf("op %d %s: Init returned %v", oi, op, err))
				}
				if !inited && !had {
					model[op.ID] = c13Vals[op.Val]
					ok = true
				}
				inited = true
			case "create":
				err = wt.Create(c13Vals[op.Val].value())
				if err == nil {
					model[op.ID] = c13Vals[op.Val]
					ok = true
				}
			case "update":
				err = wt.Update(c13Vals[op.Val].value())
				if err == nil {
					model[op.ID] = c13Vals[op.Val]
					ok = true
				}
			case "delete":
				err = wt.Delete()
				if err == nil {
					delete(model, op.ID)
					ok = true
				}
			case "upup":
				// two updates inside one write transaction
				mid := c13Vals[(op.Val+1)%len(c13Vals)]
				if e1 := wt.Update(mid.value()); e1 == nil {
					model[op.ID] = mid
					multiChanges += keyChanges(before, had, mid, true)
					err = wt.Update(c13Vals[op.Val].value())
					if err == nil {
						multiChanges += keyChanges(mid, true, c13Vals[op.Val], true)
						model[op.ID] = c13Vals[op.Val]
						ok = true
					}
				}
			case "updel":
				// an update and a delete inside one write transaction
				if e1 := wt.Update(c13Vals[op.Val].value()); e1 == nil {
					multiChanges += keyChanges(before, had, c13Vals[op.Val], true)
					model[op.ID] = c13Vals[op.Val]
					err = wt.Delete()
					if err == nil {
						multiChanges += keyChanges(c13Vals[op.Val], true, c13Val{}, false)
						delete(model, op.ID)
						ok = true
					}
				}
			}
			if wt != nil {
				wt.Close()
			}
			n0 := len(qcs)
			qs.Flush()
			// C14: callbacks for this mutation
			after, has := model[op.ID]
			changed := ok && ((had && has && (before.k1 != after.k1 || before.k2 != after.k2)) || (had != has && ((had && (before.k1 != "" || before.k2 != "")) || (has && (after.k1 != "" || after.k2 != "")))))
			got := qcs[n0:]
			want := 0
			if changed {
				want = 1
			}
			if multi {
				want = multiChanges
			}
			step := fmt.Sprintf("op %d %s", oi, op)
			if len(got) != want {
				emit("C14", fmt.Sprintf("%s: %d query-change callbacks after Flush, want %d", step, len(got), want))
			}
			if multi {
				got = nil // the per-callback checks below assume one mutation per transaction
			}
			for _, g := range got {
				if g.id != op.ID || g.before != had || g.after != has {
					emit("C14", fmt.Sprintf("%s: query change reports id %q before=%v after=%v, want %q %v %v", step, g.id, g.before, g.after, op.ID, had, has))
				}
				for pi, q := range probe {
					wantIDs := c13Ref(model, q)
					if !sameIDs(g.inCB[pi], wantIDs) {
						emit("C14", fmt.Sprintf("%s: inside the query-change callback query %+v returned %v, the index should already reflect the mutation: %v", step, q, g.inCB[pi], wantIDs))
					}
					rb, ra := c13Ref(beforeModel, q), c13Ref(model, q)
					if !sameIDs(rb, ra) && !g.events[pi] {
						emit("C14", fmt.Sprintf("%s: the result of query %+v changes from %v to %v but Events reports it unaffected", step, q, rb, ra))
					}
					// unaffected whenever neither the old nor the new key matches the query
					kb, ka := before.k1, after.k1
					if q.Idx == "j" {
						kb, ka = before.k2, after.k2
					}
					match := func(k string, present bool) bool {
						if !present || k == "" {
							return false
						}
						if k == "@" {
							k = ""
						}
						k = c13B(k)
						if !strings.HasPrefix(k, q.Prefix) {
							return false
						}
						f := c13Filter(q.Filter)
						return f == nil || f([]byte(k))
					}
					if !match(kb, had) && !match(ka, has) && g.events[pi] {
						emit("C14", fmt.Sprintf("%s: neither the old nor the new key matches query %+v but Events reports it affected", step, q))
					}
				}
			}
			sigs = append(sigs, fmt.Sprint(ok, len(got)))
		}
		for _, q := range queries {
			res, err := qs.Query(q.values())
			ids, _ := res.([]string)
			want := c13Ref(model, q)
			if err != nil || !sameIDs(ids, want) {
				emit("C13", fmt.Sprintf("after Flush query %+v returned %v (err %v); sorted, filtered, windowed scan of the stored values gives %v (model %v)", q, ids, err, want, model))
			}
			sigs = append(sigs, strings.Join(ids, "/"))
		}
	})
	for _, p := range r.Panics {
		emit("C13", "thread panicked: "+firstLineOf(p))
	}
	if r.Deadlock {
		emit("C13", "deadlock (Flush never returns?)")
	}
	var ids []string
	for id, v := range model {
		ids = append(ids, fmt.Sprintf("%s=%s/%s", id, v.k1, v.k2))
	}
	sort.Strings(ids)
	return strings.Join(ids, ","), strings.Join(sigs, ";")
}

func usedKind(ops []c13Op, kind string) bool {
	for _, o := range ops {
		if o.Kind == kind {
			return true
		}
	}
	return false
}

func runC13(c *seqCtx) {
	depth := 3
	if c.thorough {
		depth = 4
	}
	db := openDB()
	defer db.Close()
	basic := c13BasicQueries()
	full := c13FullQueries()
	ids := []string{"a", "b", "c"}
	seenContent := map[string]bool{}
	var rec func(ops []c13Op, present map[string]bool)
	rec = func(ops []c13Op, present map[string]bool) {
		if c.Stopped() {
			return
		}
		if len(ops) > 0 && c.Mine() {
			hs := opsString(ops)
			for _, prefix := range []string{"", "ba"} {
				if prefix == "ba" && (len(ops) > 3 || (len(ops) > 2 && !c.thorough)) {
					continue // the store prefix is exercised up to length 2 (quick) / 3 (thorough)
				}
				in := prefix + "|" + hs
				content, sig := c13Run(db, prefix, ops, basic, func(prop, desc string) { c.Fail(prop, desc+" ["+in+"]", in) })
				c.Eval(in + "=>" + sig)
				c.out.Transitions += int64(len(ops))
				if len(ops) <= 2 && prefix == "" && !seenContent[content] {
					seenContent[content] = true
					c13Run(db, prefix, ops, full, func(prop, desc string) { c.Fail(prop, desc+" ["+in+"|full]", in+"|full") })
					c.out.Evaluations += int64(len(full))
					c.out.States++
				}
			}
		}
		if len(ops) == depth {
			return
		}
		for _, id := range ids {
			// symmetry: ids are introduced in order a, b, c
			if id == "b" && !present["a"] && !usedID(ops, "a") {
				continue
			}
			if id == "c" && !usedID(ops, "b") {
				continue
			}
			// the 4th operation of the thorough tier ranges over a reduced value set {nil, (k,k)} and
			// has no two-mutation transactions: depth 4 over the full alphabet is 25 times larger than depth 3
			vals := c13AllVals
			multi := []int{1, 2, 5, 8}
			if len(ops) == 3 {
				vals = []int{0, 5}
				multi = nil
			}
			if !usedKind(ops, "init") && len(ops) < 3 {
				// Store.Init seeding this id (skipped when the id exists), once per history
				for _, vi := range []int{1, 5} {
					np := copyPresent(present)
					np[id] = true
					rec(append(append([]c13Op{}, ops...), c13Op{"init", id, vi}), np)
				}
			}
			if present[id] {
				for _, vi := range vals {
					rec(append(append([]c13Op{}, ops...), c13Op{"update", id, vi}), present)
				}
				for _, vi := range multi {
					rec(append(append([]c13Op{}, ops...), c13Op{"upup", id, vi}), present)
					np := copyPresent(present)
					delete(np, id)
					rec(append(append([]c13Op{}, ops...), c13Op{"updel", id, vi}), np)
				}
				np := copyPresent(present)
				delete(np, id)
				rec(append(append([]c13Op{}, ops...), c13Op{"delete", id, 0}), np)
			} else {
				for _, vi := range vals {
					np := copyPresent(present)
					np[id] = true
					rec(append(append([]c13Op{}, ops...), c13Op{"create", id, vi}), np)
				}
				if len(ops) == 0 {
					rec(append(append([]c13Op{}, ops...), c13Op{"delete", id, 0}), present) // failing delete
				}
			}
		}
	}
	rec(nil, map[string]bool{})
	c.Sample("create:a:2,create:b:1,update:a:3 => queries on index i prefix k reverse")
	if c.Mine() {
		sig := c13Burst(db, func(prop, desc string) { c.Fail(prop, desc+" [burst]", "burst") })
		c.Eval("burst=>" + sig)
		c.Sample("burst: 258 queued index updates with the worker held in a callback")
	}
	if c.Mine() {
		sig := c13NulProbe(db, func(prop, desc string) { c.Fail(prop, desc+" [nulprobe]", "nulprobe") })
		c.Eval("nulprobe=>" + sig)
	}
}

// c13NulProbe: one fixed history outside the key alphabet of the enumeration - an index key that contains the
// separator byte NUL *and* has another stored key as a proper prefix. The index entry is <key> NUL <id>, so such
// a key cannot be ordered by (index key, id); see known_findings.json (C13-nul-key-order).
func c13NulProbe(db *badger.DB, emit func(prop, desc string)) string {
	var got []string
	var qerr error
	r := scen.RunSeq(func() {
		dbClear(db)
		st := badgerstore.NewStore(db)
		qs := badgerstore.NewQueryStore(st, c13IQ)
		qs.AddIndex(badgerstore.Index{Name: "i", Key: func(v interface{}) []byte { return c13Key("i", v.(map[string]interface{})) }})
		for _, e := range [][2]string{{"c", "k"}, {"a", "k\x00b"}} {
			wt := st.Write(e[0])
			wt.Create(map[string]interface{}{"k1": e[1]})
			wt.Close()
		}
		qs.Flush()
		var res interface{}
		res, qerr = qs.Query(c13Query{Idx: "i", Prefix: "k", Limit: -1}.values())
		got, _ = res.([]string)
	})
	for _, p := range r.Panics {
		emit("C13", "thread panicked: "+firstLineOf(p))
	}
	if qerr != nil || !sameIDs(got, []string{"c", "a"}) {
		emit("C13", fmt.Sprintf("index keys containing the separator byte: values c (key \"k\") and a (key \"k\\x00b\"), query {i, prefix k} returned %v (err %v); ordered bytewise by (index key, id) it is [c a]", got, qerr))
	}
	return strings.Join(got, ",")
}

// c13Burst: the index worker is held inside its first query-change callback while one writer queues more
// index updates than the queue holds (the environment answer "queue full"); afterwards the index must
// still equal the stored values.
func c13Burst(db *badger.DB, emit func(prop, desc string)) string {
	var got []string
	var calls int
	var hotOrder []string
	overlap := false
	r := scen.RunSeq(func() {
		dbClear(db)
		st := badgerstore.NewStore(db)
		qs := badgerstore.NewQueryStore(st, c13IQ)
		qs.AddIndex(badgerstore.Index{Name: "i", Key: func(v interface{}) []byte { return c13Key("i", v.(map[string]interface{})) }})
		qs.AddIndex(badgerstore.Index{Name: "j", Key: func(v interface{}) []byte { return c13Key("j", v.(map[string]interface{})) }})
		hold := make(chan struct{}, 1)
		inCB := 0
		qs.OnQueryChange(func(qc store.QueryChange) {
			inCB++
			if inCB > 1 {
				overlap = true
			}
			if qc.ID() == "hot" {
				if m, ok := qc.After().(map[string]interface{}); ok {
					hotOrder = append(hotOrder, fmt.Sprint(m["k1"]))
				}
			}
			calls++
			if calls == 1 {
				vsched.Recv(hold)
			}
			inCB--
		})
		put := func(id, key string, create bool) {
			wt := st.Write(id)
			v := map[string]interface{}{"k1": key}
			if create {
				wt.Create(v)
			} else {
				wt.Update(v)
			}
			wt.Close()
		}
		done := make(chan struct{}, 1)
		vsched.Go("W", func() {
			put("hot", "k0", true)
			for i := 0; i < 254; i++ {
				put(fmt.Sprintf("f%03d", i), "z", true)
			}
			put("hot", "k1", false)
			put("hot", "k2", false)
			put("hot", "k3", false)
			vsched.Send(done, struct{}{})
		})
		vsched.AwaitQuiescence()
		vsched.Send(hold, struct{}{})
		vsched.Recv(done)
		qs.Flush()
		res, _ := qs.Query(c13Query{"i", "k", "", 0, -1, false}.values())
		got, _ = res.([]string)
	})
	for _, p := range r.Panics {
		emit("C13", "burst: thread panicked: "+firstLineOf(p))
	}
	if r.Deadlock {
		emit("C13", "burst: deadlock")
	}
	if !sameIDs(got, []string{"hot"}) {
		emit("C13", fmt.Sprintf("burst of 258 mutations while the index worker is busy: query for prefix k returns %v, the stored values give [hot]", got))
	}
	if strings.Join(hotOrder, " ") != "k0 k1 k2 k3" {
		emit("C14", fmt.Sprintf("burst: the query-change callbacks of id hot ran for the keys %v, the mutation order is [k0 k1 k2 k3]", hotOrder))
	}
	if calls != 258 {
		emit("C14", fmt.Sprintf("burst: %d query-change callbacks for 258 key-changing mutations", calls))
	}
	if overlap {
		emit("C16", "burst: two query-change callbacks ran at the same time (index updates are no longer handled by one goroutine)")
	}
	return strings.Join(got, ",")
}

func init() {
	seqChecks["burst"] = &seqCheck{rule: "one execution: 258 index updates queued while the index worker is held in a callback (queue-full environment answer); run in the -race build for C16",
		run: func(c *seqCtx) {
			db := openDB()
			defer db.Close()
			sig := c13Burst(db, func(prop, desc string) { c.Fail(prop, desc+" [burst]", "burst") })
			c.Eval("burst=>" + sig)
			c.Eval("burst-done")
			c.Sample("burst: 258 queued index updates with the worker held in a callback")
		},
		replay: func(string) []string {
			db := openDB()
			defer db.Close()
			var out []string
			c13Burst(db, func(prop, desc string) { out = append(out, prop+": "+desc) })
			return out
		}}
}

// keyChanges counts whether a mutation changes some index key (1) or none (0).
func keyChanges(b c13Val, had bool, a c13Val, has bool) int {
	k := func(v c13Val, present bool) (string, string) {
		if !present {
			return "", ""
		}
		return v.k1, v.k2
	}
	b1, b2 := k(b, had)
	a1, a2 := k(a, has)
	if b1 != a1 || b2 != a2 {
		return 1
	}
	return 0
}

func usedID(ops []c13Op, id string) bool {
	for _, o := range ops {
		if o.ID == id {
			return true
		}
	}
	return false
}

func copyPresent(m map[string]bool) map[string]bool {
	n := map[string]bool{}
	for k, v := range m {
		n[k] = v
	}
	return n
}

func opsString(ops []c13Op) string {
	var s []string
	for _, o := range ops {
		s = append(s, o.String())
	}
	return strings.Join(s, ",")
}

func replayC13(input string) []string {
	f := strings.Split(input, "|")
	db := openDB()
	defer db.Close()
	if input == "burst" {
		var out []string
		c13Burst(db, func(prop, desc string) { out = append(out, prop+": "+desc) })
		return out
	}
	if input == "nulprobe" {
		var out []string
		c13NulProbe(db, func(prop, desc string) { out = append(out, prop+": "+desc) })
		return out
	}
	qs := c13BasicQueries()
	if len(f) > 2 && f[2] == "full" {
		qs = c13FullQueries()
	}
	var out []string
	c13Run(db, f[0], parseC13Ops(f[1]), qs, func(prop, desc string) { out = append(out, prop+": "+desc) })
	return out
}

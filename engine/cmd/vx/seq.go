package main

import (
	"encoding/json"
	"flag"
	"fmt"
	"os"
	"runtime"
	"runtime/pprof"
	"sort"
	"time"

	"verif/vsched"
)

// SeqOut is the JSON result of one sequential bounded-exhaustive check (one shard).
type SeqOut struct {
	Check               string           `json:"check"`
	Tier                string           `json:"tier"`
	Shard               string           `json:"shard"`
	Evaluations         int64            `json:"evaluations"`
	DistinctNontrivial  int64            `json:"distinct_nontrivial"`
	States              int64            `json:"states"`
	Transitions         int64            `json:"transitions"`
	Exhaustive          bool             `json:"exhaustive"`
	ExcludedUnspecified int64            `json:"excluded_unspecified"`
	Rule                string           `json:"rule"`
	Samples             []string         `json:"samples"`
	Violations          []SeqViolation   `json:"violations"`
	Extra               map[string]int64 `json:"extra"`
	WallS               float64          `json:"wall_s"`
}

type SeqViolation struct {
	Desc  string `json:"desc"`
	Input string `json:"input"`
}

// seqCtx is handed to a check.
type seqCtx struct {
	prop     string
	polls    int64
	out      *SeqOut
	shard    int
	nshards  int
	thorough bool
	seen     map[uint64]struct{}
	maxViol  int
	stop     bool
	counter  int64
	until    time.Time
}

// Mine reports whether case number i belongs to this shard.
func (c *seqCtx) Mine() bool {
	i := c.counter
	c.counter++
	return int(i%int64(c.nshards)) == c.shard
}

// Eval counts one evaluation; key identifies the (input, outcome class) pair for distinct counting
// (empty key: trivial, not counted as distinct).
func (c *seqCtx) Eval(key string) {
	c.out.Evaluations++
	if key != "" {
		h := vsched.HashString(key)
		if _, ok := c.seen[h]; !ok {
			c.seen[h] = struct{}{}
			c.out.DistinctNontrivial++
		}
	}
}

func (c *seqCtx) EvalH(h uint64) {
	c.out.Evaluations++
	if _, ok := c.seen[h]; !ok {
		c.seen[h] = struct{}{}
		c.out.DistinctNontrivial++
	}
}

func (c *seqCtx) Sample(s string) {
	if len(c.out.Samples) < 8 {
		c.out.Samples = append(c.out.Samples, s)
	}
}

func (c *seqCtx) Extra(k string, n int64) { c.out.Extra[k] += n }

func (c *seqCtx) Excluded() { c.out.ExcludedUnspecified++ }

// Fail records a violation; input must be enough for replaySeq to re-run the case.
func (c *seqCtx) Fail(prop, desc, input string) {
	if c.prop != "" && prop != c.prop && len(prop) == 3 && prop[0] == 'C' {
		return // a violation of another property: decided by that property's own check
	}
	if len(c.out.Violations) < c.maxViol {
		c.out.Violations = append(c.out.Violations, SeqViolation{Desc: prop + ": " + desc, Input: input})
	} else {
		c.stop = true
		c.out.Exhaustive = false
	}
}

func (c *seqCtx) Stopped() bool {
	c.polls++
	if !c.stop && !c.until.IsZero() && c.polls%64 == 0 && time.Now().After(c.until) {
		c.stop = true
		c.out.Exhaustive = false
	}
	return c.stop
}

type seqCheck struct {
	run    func(c *seqCtx)
	replay func(input string) []string // returns violation descriptions for one input
	rule   string
}

var seqChecks = map[string]*seqCheck{}

func cmdSeq(args []string) {
	fs := flag.NewFlagSet("seq", flag.ExitOnError)
	name := fs.String("check", "", "check name")
	tier := fs.String("tier", "quick", "quick|thorough")
	shard := fs.String("shard", "0/1", "i/n")
	out := fs.String("out", "", "output json")
	maxviol := fs.Int("maxviol", 25, "violation cap")
	timeout := fs.Duration("timeout", 0, "wall-clock cap")
	memprof := fs.String("memprofile", "", "write a heap profile at the end")
	prop := fs.String("prop", "", "record only violations of this property")
	fs.Parse(args)
	ck := seqChecks[*name]
	if ck == nil {
		var names []string
		for k := range seqChecks {
			names = append(names, k)
		}
		sort.Strings(names)
		fail("unknown seq check %q (have %v)", *name, names)
	}
	c := &seqCtx{out: &SeqOut{Check: *name, Tier: *tier, Shard: *shard, Exhaustive: true, Rule: ck.rule, Extra: map[string]int64{}},
		thorough: *tier == "thorough", seen: map[uint64]struct{}{}, maxViol: *maxviol}
	c.prop = *prop
	fmt.Sscanf(*shard, "%d/%d", &c.shard, &c.nshards)
	if c.nshards == 0 {
		c.nshards = 1
	}
	if *timeout > 0 {
		c.until = time.Now().Add(*timeout)
	}
	t0 := time.Now()
	ck.run(c)
	c.out.WallS = time.Since(t0).Seconds()
	if *memprof != "" {
		f, _ := os.Create(*memprof)
		runtime.GC()
		pprof.WriteHeapProfile(f)
		f.Close()
		fmt.Fprintf(os.Stderr, "goroutines=%d\n", runtime.NumGoroutine())
	}
	data, _ := json.MarshalIndent(c.out, "", " ")
	if *out != "" {
		os.WriteFile(*out, data, 0o644)
	} else {
		fmt.Println(string(data))
	}
}

func replaySeq(rf *ReplayFile) {
	ck := seqChecks[rf.Check]
	if ck == nil || ck.replay == nil {
		fail("no replay for seq check %q", rf.Check)
	}
	fmt.Printf("check %s input %s\n", rf.Check, rf.Input)
	v1 := ck.replay(rf.Input)
	v2 := ck.replay(rf.Input)
	if fmt.Sprint(v1) != fmt.Sprint(v2) {
		fail("replay is not deterministic")
	}
	for _, d := range v1 {
		fmt.Println("VIOLATED", d)
	}
	if len(v1) == 0 {
		fmt.Println("no violation on this input")
	}
}

package main

func cmdSeq(args []string) { fail("seq: not built yet") }

func replaySeq(rf *ReplayFile) { fail("seq replay: not built yet") }

package main

import (
	"encoding/json"
	"errors"
	"fmt"
	"strings"

	res "github.com/jirenius/go-res"
	"github.com/jirenius/go-res/logger"
	"github.com/jirenius/go-res/store"
	"github.com/jirenius/go-res/store/mockstore"

	"verif/envnats"
	"verif/ref"
	"verif/scen"
	"verif/vsched"
)

func init() {
	seqChecks["c10"] = &seqCheck{run: runC10, replay: replayC10,
		rule: "all ordered pairs (absent included) of collections of length<=4 over {1,2,3}, of collections of length<=3 over {1,'x',ref,softref,data}, and of models over keys {a,b,c} with values {absent,1,'x',ref,data}; rewrites of 300-item collections (with / without common head and tail); all mutation histories of length<=3 over ids {1,2}; x configuration {no transformer, IDTransformer, value-dependent rid, transformer failing on one value, transformer hiding one value as not found, empty rid, one IDTransformer shared with a second handler} x default {none, set}; mutations go through the real mockstore -> OnChange -> store handler -> events; a reference RES client applies the events to the pre-mutation get and must equal a fresh get; distinct = distinct (configuration, before, after, event list)"}
}

type c10Cfg struct {
	Type    string // model | collection
	Trans   string // none | id | xform | failing | hiding | emptyrid
	Default bool
}

func (c c10Cfg) String() string { return fmt.Sprintf("%s/%s/%v", c.Type, c.Trans, c.Default) }

func parseC10Cfg(s string) c10Cfg {
	f := strings.Split(s, "/")
	return c10Cfg{f[0], f[1], f[2] == "true"}
}

// values are JSON texts; "" = absent
func c10Parse(j string) interface{} {
	if j == "" {
		return nil
	}
	if strings.HasPrefix(j, "@seq(") {
		// @seq(h,n,base,t): h head items (7), the n numbers base..base+n-1, t tail items (9): a large collection
		var h, n, base, t int
		fmt.Sscanf(j, "@seq(%d,%d,%d,%d)", &h, &n, &base, &t)
		out := []interface{}{}
		for i := 0; i < h; i++ {
			out = append(out, 7.0)
		}
		for i := 0; i < n; i++ {
			out = append(out, float64(base+i))
		}
		for i := 0; i < t; i++ {
			out = append(out, 9.0)
		}
		return out
	}
	var v interface{}
	if err := json.Unmarshal([]byte(j), &v); err != nil {
		panic(j)
	}
	return v
}

type c10Step struct {
	ID    string
	After string // JSON of the new value, "" = delete
}

type c10Case struct {
	Cfg   c10Cfg
	Init  map[string]string // id -> JSON
	Steps []c10Step
	Watch string // id whose resource the client holds
}

func (c c10Case) String() string {
	b, _ := json.Marshal(c)
	return string(b)
}

type c10World struct {
	base string           // resource id prefix of the handler under test ("" = t.m.)
	warm *mockstore.Store // store of the other handler in the shared-transformer configuration
	conn *envnats.Conn
	st   *mockstore.Store
	s    *res.Service
	cfg  c10Cfg
}

func (w *c10World) rid(id string, v interface{}) string {
	switch w.cfg.Trans {
	case "none":
		return id
	case "emptyrid":
		return ""
	case "valrid":
		// the rid depends on the value: models/collections carrying the marker "x" live under t.y.<id>
		if strings.Contains(js10(v), `"x"`) {
			return "t.y." + id
		}
		return "t.m." + id
	}
	return "t.m." + id
}

func js10(v interface{}) string { b, _ := json.Marshal(v); return string(b) }

func (w *c10World) storeID(id string) string {
	if w.cfg.Trans == "none" {
		return "t.m." + id
	}
	return id
}

func newC10World(cfg c10Cfg) *c10World {
	w := &c10World{conn: envnats.New(), st: mockstore.NewStore(), cfg: cfg}
	w.conn.Quiet = true
	w.conn.KeepPubs = true
	s := res.NewService("t")
	s.SetLogger(logger.NewMemLogger()) // the store handler logs through Service.Logger() without a nil check
	s.SetWorkerCount(1)
	w.s = s
	h := store.Handler{Store: w.st}
	failing := func(id string, v interface{}) (interface{}, error) {
		if strings.Contains(js10(v), `99`) {
			return nil, errors.New("cannot transform")
		}
		return v, nil
	}
	hiding := func(id string, v interface{}) (interface{}, error) {
		// hides some stored values (a soft-delete): they are served as not found
		if strings.Contains(js10(v), `99`) {
			return nil, store.ErrNotFound
		}
		return v, nil
	}
	switch cfg.Trans {
	case "id":
		h.Transformer = store.IDTransformer("id", nil)
	case "failing":
		h.Transformer = store.IDTransformer("id", failing)
	case "hiding":
		h.Transformer = store.IDTransformer("id", hiding)
	case "xform", "emptyrid":
		// a custom transformer: the served representation differs from the stored value
		h.Transformer = store.TransformFuncs(
			func(rid string, pp map[string]string) string {
				if cfg.Trans == "emptyrid" {
					return "" // the transformer maps nothing: not found in both directions
				}
				return pp["id"]
			},
			func(id string, v interface{}, p res.Pattern) string {
				if cfg.Trans == "emptyrid" {
					return ""
				}
				return string(p.ReplaceTag("id", id))
			},
			func(id string, v interface{}) (interface{}, error) {
				switch x := v.(type) {
				case map[string]interface{}:
					m := map[string]interface{}{"id": id}
					for k, e := range x {
						m[k] = e
					}
					return m, nil
				case []interface{}:
					return append(append([]interface{}{}, x...), "id-"+id), nil
				}
				return v, nil
			})
	}
	typ := res.Model
	if cfg.Type == "collection" {
		typ = res.Collection
	}
	if cfg.Default {
		if cfg.Type == "collection" {
			h.Default = []interface{}{"dflt"}
		} else {
			h.Default = map[string]interface{}{"d": "dflt"}
		}
	}
	if cfg.Trans == "shared" {
		// one IDTransformer value shared by two handlers on different patterns (each with a store of its own):
		// the handler under test is n.$id, the other one is used first
		tr := store.IDTransformer("id", nil)
		w.warm = mockstore.NewStore()
		s.Handle("m.$id", typ, store.Handler{Store: w.warm, Transformer: tr})
		h.Transformer = tr
		s.Handle("n.$id", typ, h)
		w.base = "t.n."
		return w
	}
	s.Handle("m.$id", typ, h)
	return w
}

// get performs a get request for rid and returns the response payload.
func (w *c10World) get(rid string) string {
	n0 := len(w.conn.Pubs)
	w.conn.Inject("get."+rid, "GET", nil)
	vsched.AwaitQuiescence()
	for _, m := range w.conn.Pubs[n0:] {
		if m.Subject == "GET" {
			return m.Data
		}
	}
	return ""
}

// c10Judge runs the cases of one configuration on one service.
func c10Batch(cfg c10Cfg, cases []c10Case, emit func(cs c10Case, desc string), count func(cs c10Case, sig string), excluded func()) {
	r := scen.RunSeq(func() {
		w := newC10World(cfg)
		served := make(chan struct{}, 1)
		w.s.SetOnServe(func(*res.Service) { vsched.Send(served, struct{}{}) })
		vsched.Go("serve", func() { w.s.Serve(w.conn) })
		vsched.Recv(served)
		if w.warm != nil {
			// the other handler's store changes an id of its own and the very ids the handler under test will use
			for _, id := range []string{"w", "1", "2"} {
				wt := w.warm.Write(id)
				if cfg.Type == "collection" {
					wt.Create([]interface{}{1.0})
				} else {
					wt.Create(map[string]interface{}{"a": 1.0})
				}
				wt.Close()
			}
			vsched.AwaitQuiescence()
		}
		for _, cs := range cases {
			// reset the store content without callbacks
			w.st.Resources = map[string]interface{}{}
			for id, j := range cs.Init {
				w.st.Resources[w.storeID(id)] = c10Parse(j)
			}
			// the client holds the resource the watched id is served under before the history
			curRID := "t.m." + cs.Watch
			if w.base != "" {
				curRID = w.base + cs.Watch
			}
			cache, err := ref.FromGet(w.get(curRID))
			if err != nil {
				if cfg.Trans == "failing" {
					excluded() // a get answered with an error: nothing is defined about what a client holds
					continue
				}
				emit(cs, "initial get failed: "+err.Error())
				continue
			}
			var evlog []string
			bad := false
			for si, st := range cs.Steps {
				n0 := len(w.conn.Pubs)
				wt := w.st.Write(w.storeID(st.ID))
				var merr error
				func() {
					defer func() {
						if p := recover(); p != nil {
							merr = fmt.Errorf("panic: %v", p)
						}
					}()
					switch {
					case st.After == "":
						merr = wt.Delete()
					case wt.Exists():
						merr = wt.Update(c10Parse(st.After))
					default:
						merr = wt.Create(c10Parse(st.After))
					}
				}()
				wt.Close()
				if merr != nil && strings.HasPrefix(merr.Error(), "panic") {
					emit(cs, fmt.Sprintf("step %d: store mutation panicked in the change handler: %v", si, merr))
					bad = true
					break
				}
				vsched.AwaitQuiescence()
				for _, m := range w.conn.Pubs[n0:] {
					if !strings.HasPrefix(m.Subject, "event.") {
						continue
					}
					i := strings.LastIndexByte(m.Subject, '.')
					rid, name := m.Subject[6:i], m.Subject[i+1:]
					evlog = append(evlog, rid+" "+name+" "+m.Data)
					if e := ref.ValidateEvent(m.Subject, m.Data); e != "" {
						emit(cs, fmt.Sprintf("step %d: event %s %s: %s", si, m.Subject, m.Data, e))
					}
					if rid != curRID {
						// an event for another resource id (the value moved, or another id): create/delete announcements are checked below
						continue
					}
					switch name {
					case "create":
						if cache.Found {
							emit(cs, fmt.Sprintf("step %d: create event on %s, which get already served as %s", si, rid, cache))
						}
						fresh, err := ref.FromGet(w.get(rid))
						if err == nil {
							cache = fresh
						}
					case "delete":
						if !cache.Found {
							emit(cs, fmt.Sprintf("step %d: delete event on %s, which get reported as missing", si, rid))
						}
						cache = &ref.Cache{}
					default:
						if err := cache.Apply(name, m.Data); err != nil {
							emit(cs, fmt.Sprintf("step %d: a client holding %s cannot apply event %s %s: %v", si, cache, name, m.Data, err))
							bad = true
						}
					}
				}
				if bad {
					break
				}
			}
			if bad {
				continue
			}
			fresh, err := ref.FromGet(w.get(curRID))
			if err != nil {
				if cfg.Trans == "failing" {
					excluded()
					continue
				}
				emit(cs, "final get failed: "+err.Error())
				continue
			}
			if !cache.Equal(fresh) {
				emit(cs, fmt.Sprintf("client of %s holds %s after applying %v, a fresh get returns %s", curRID, cache, evlog, fresh))
			}
			count(cs, strings.Join(evlog, ";"))
		}
	})
	for _, p := range r.Panics {
		emit(cases[0], "thread panicked: "+firstLineOf(p))
	}
}

func c10Collections(alpha []string, maxLen int) []string {
	out := []string{""}
	var rec func(cur []string)
	rec = func(cur []string) {
		out = append(out, "["+strings.Join(cur, ",")+"]")
		if len(cur) == maxLen {
			return
		}
		for _, a := range alpha {
			rec(append(append([]string{}, cur...), a))
		}
	}
	rec(nil)
	return out
}

func c10Models(vals []string) []string {
	out := []string{""}
	keys := []string{"a", "b", "c"}
	n := len(vals) + 1
	total := n * n * n
	for m := 0; m < total; m++ {
		var parts []string
		x := m
		for _, k := range keys {
			if v := x % n; v > 0 {
				parts = append(parts, `"`+k+`":`+vals[v-1])
			}
			x /= n
		}
		out = append(out, "{"+strings.Join(parts, ",")+"}")
	}
	return out
}

func runC10(c *seqCtx) {
	rich := []string{`1`, `"x"`, `{"rid":"t.ref.1"}`, `{"rid":"t.ref.1","soft":true}`, `{"data":{"z":[1]}}`}
	colsNum := c10Collections([]string{"1", "2", "3"}, 4)
	colsRich := c10Collections(rich, 3)
	models := c10Models(rich[:4+1-1])
	_ = models
	var cfgs []c10Cfg
	for _, ty := range []string{"collection", "model"} {
		for _, tr := range []string{"none", "id", "xform", "failing", "hiding", "emptyrid", "shared"} {
			for _, d := range []bool{false, true} {
				cfgs = append(cfgs, c10Cfg{ty, tr, d})
			}
		}
	}
	emit := func(cs c10Case, desc string) { c.Fail("C10", desc+" ["+cs.String()+"]", cs.String()) }
	count := func(cs c10Case, sig string) {
		c.Eval(cs.String() + "=>" + sig)
		c.out.Transitions += int64(len(cs.Steps))
	}
	batch := func(cfg c10Cfg, cases []c10Case) {
		for i := 0; i < len(cases); i += 400 {
			j := i + 400
			if j > len(cases) {
				j = len(cases)
			}
			if c.Mine() {
				c10Batch(cfg, cases[i:j], emit, count, c.Excluded)
			}
			if c.Stopped() {
				return
			}
		}
	}
	for _, cfg := range cfgs {
		var values []string
		full := cfg.Trans == "id" && !cfg.Default
		if cfg.Type == "collection" {
			values = colsNum
			if !full && !c.thorough {
				values = c10Collections([]string{"1", "2", "3"}, 3)
			}
		} else {
			values = c10Models([]string{`1`, `"x"`, `{"rid":"t.ref.1"}`, `{"data":{"z":[1]}}`})
			if !full && !c.thorough {
				values = c10Models([]string{`1`, `"x"`})
			}
		}
		if cfg.Trans == "failing" || cfg.Trans == "hiding" {
			if cfg.Type == "collection" {
				values = append(append([]string{}, c10Collections([]string{"1", "2"}, 2)...), "[99]", "[1,99]")
			} else {
				values = append(append([]string{}, c10Models([]string{`1`})...), `{"a":99}`, `{"a":1,"b":99}`)
			}
		}
		var cases []c10Case
		for _, b := range values {
			for _, a := range values {
				init := map[string]string{}
				if b != "" {
					init["1"] = b
				}
				cases = append(cases, c10Case{Cfg: cfg, Init: init, Steps: []c10Step{{"1", a}}, Watch: "1"})
			}
		}
		batch(cfg, cases)
		if cfg.Type == "collection" && full {
			var rc []c10Case
			for _, b := range colsRich {
				for _, a := range colsRich {
					init := map[string]string{}
					if b != "" {
						init["1"] = b
					}
					rc = append(rc, c10Case{Cfg: cfg, Init: init, Steps: []c10Step{{"1", a}}, Watch: "1"})
				}
			}
			batch(cfg, rc)
		}
		if cfg.Type == "collection" && (cfg.Trans == "id" || cfg.Trans == "none") {
			// large rewrites: 300 differing items on both sides (a 90 000-cell comparison), with and without a
			// common head and tail, and a rotation by 150
			var lc []c10Case
			for _, h := range []int{0, 1} {
				for _, t := range []int{0, 2} {
					b := fmt.Sprintf("@seq(%d,300,1000,%d)", h, t)
					for _, a := range []string{fmt.Sprintf("@seq(%d,300,5000,%d)", h, t), fmt.Sprintf("@seq(%d,300,1150,%d)", h, t), fmt.Sprintf("@seq(%d,0,0,%d)", h, t)} {
						lc = append(lc, c10Case{Cfg: cfg, Init: map[string]string{"1": b}, Steps: []c10Step{{"1", a}}, Watch: "1"})
						lc = append(lc, c10Case{Cfg: cfg, Init: map[string]string{"1": a}, Steps: []c10Step{{"1", b}}, Watch: "1"})
					}
				}
			}
			batch(cfg, lc)
		}
		// histories of <=3 mutations over ids {1,2}
		small := []string{"", "[1]", "[2,1]"}
		if cfg.Type == "model" {
			small = []string{"", `{"a":1}`, `{"a":2,"b":"x"}`}
		}
		if cfg.Trans == "failing" || cfg.Trans == "hiding" {
			small[2] = map[string]string{"collection": "[99]", "model": `{"a":99}`}[cfg.Type]
		}
		var hs []c10Case
		var rec func(steps []c10Step)
		rec = func(steps []c10Step) {
			if len(steps) > 1 {
				hs = append(hs, c10Case{Cfg: cfg, Init: map[string]string{}, Steps: steps, Watch: "1"})
			}
			if len(steps) == 3 {
				return
			}
			for _, id := range []string{"1", "2"} {
				for _, v := range small {
					rec(append(append([]c10Step{}, steps...), c10Step{id, v}))
				}
			}
		}
		rec(nil)
		batch(cfg, hs)
		if c.Stopped() {
			return
		}
	}
	c.Sample(`{"Cfg":{"Type":"collection","Trans":"id"},"Init":{"1":"[1,2,3]"},"Steps":[{"ID":"1","After":"[3,1,2]"}]} => remove/add events`)
}

func replayC10(input string) []string {
	var cs c10Case
	json.Unmarshal([]byte(input), &cs)
	var out []string
	c10Batch(cs.Cfg, []c10Case{cs}, func(_ c10Case, desc string) { out = append(out, "C10: "+desc) }, func(c10Case, string) {}, func() {})
	return out
}

package main

import (
	"encoding/json"
	"fmt"
	"strings"

	res "github.com/jirenius/go-res"
	"github.com/jirenius/go-res/resprot"

	"verif/envnats"
	"verif/ref"
	"verif/scen"
	"verif/vsched"
)

func init() {
	seqChecks["c04"] = &seqCheck{run: runC04, replay: replayC04,
		rule: "request kind {access,get,call.m,call.new,call.zz,auth.m,auth.zz} x registration {none, other handlers only, exact, *, new, no-access} x payload {empty, {}, full, malformed, isHttp} x every handler script of length<=3 (4 thorough) over 14 actions (+ scripts of <=2 with an error wrapping a library error, a library error with a predefined code and its own message, a panic with a wrapping error), each on a fresh real service under the scheduler (exact quiescence); oracles: C04 one response, C05 dispatch+mapping, C07 protocol shape, C18 client parsing; distinct = distinct (case, response class) pairs"}
}

var c04Actions = []string{"ok", "err", "errplain", "notfound", "timeout", "event", "value", "panicErr", "panicPlain", "panicStr", "panic42", "panicNilErr", "setmeta", "resource"}

var c04Payloads = map[string]string{
	"empty":     "",
	"obj":       `{}`,
	"full":      `{"cid":"c1","params":{"a":1},"token":{"t":true},"query":"q=1&r=2","header":{"H":["x","y"]},"host":"h","remoteAddr":"1.2.3.4","uri":"/u","isHttp":false}`,
	"malformed": `{"cid":`,
	"http":      `{"cid":"c2","isHttp":true}`,
}

type c04Case struct {
	Kind    string // access get call.m call.new call.zz auth.m auth.zz
	Reg     string // none other exact star new noaccess
	Payload string
	Script  []string
}

func (c c04Case) String() string {
	return c.Kind + "|" + c.Reg + "|" + c.Payload + "|" + strings.Join(c.Script, ",")
}

func parseC04(s string) c04Case {
	f := strings.Split(s, "|")
	c := c04Case{Kind: f[0], Reg: f[1], Payload: f[2]}
	if f[3] != "" {
		c.Script = strings.Split(f[3], ",")
	}
	return c
}

func (c c04Case) specs() []scen.HSpec {
	h := scen.HSpec{Pattern: "r", Type: "model"}
	switch c.Reg {
	case "none":
		return []scen.HSpec{{Pattern: "other", Get: true}}
	case "other":
		// every handler kind except the one the request needs
		switch strings.SplitN(c.Kind, ".", 2)[0] {
		case "access":
			h.Get, h.Call, h.Auth = true, []string{"m"}, []string{"m"}
		case "get":
			h.Access, h.Call, h.Auth = true, []string{"m"}, []string{"m"}
		case "call":
			h.Access, h.Get, h.Auth = true, true, []string{"m", "new", "zz"}
		case "auth":
			h.Access, h.Get, h.Call = true, true, []string{"m", "new", "zz"}
		}
	case "exact":
		h.Access, h.Get, h.Call, h.Auth = true, true, []string{"m"}, []string{"m"}
	case "star":
		h.Access, h.Get, h.Call, h.Auth = true, true, []string{"*"}, []string{"*"}
	case "new":
		h.Access, h.Get, h.New, h.Call = true, true, true, []string{"*"}
	case "noaccess":
		h.Get, h.Call, h.Auth = true, []string{"m"}, []string{"m"}
	}
	return []scen.HSpec{h}
}

func (c c04Case) subject() string {
	return strings.Replace(c.Kind, ".", ".t.r.", 1) + map[bool]string{true: ".t.r", false: ""}[!strings.Contains(c.Kind, ".")]
}

func refSpecs(hs []scen.HSpec) []ref.RefSpec {
	var out []ref.RefSpec
	for _, h := range hs {
		out = append(out, ref.RefSpec{Pattern: h.Pattern, Access: h.Access, Get: h.Get, Call: h.Call, Auth: h.Auth, New: h.New})
	}
	return out
}

// c04Judge runs one case and returns the response class for distinct counting.
func c04Judge(c c04Case, emit func(prop, desc string)) string {
	payload := c04Payloads[c.Payload]
	rc := scen.ReqCase{Specs: c.specs(), Subject: c.subject(), Payload: []byte(payload), NoData: c.Payload == "empty", Script: c.Script}
	r := scen.RunReq(rc)
	http := c.Payload == "http"
	for _, p := range r.Panics {
		emit("C04", fmt.Sprintf("a thread of the service panicked: %s", firstLineOf(p)))
	}
	if r.Deadlock {
		emit("C04", "the service deadlocked")
	}
	if !r.ProbeOK {
		emit("C04", "the service does not answer a probe request afterwards")
	}
	marker, static, _, _ := ref.Dispatch("t", refSpecs(rc.Specs), rc.Subject, rc.Payload, rc.NoData)
	// C04: exactly one response that is not a pre-response
	var final []string
	pres := 0
	for _, d := range r.Replies {
		if strings.HasPrefix(d, "timeout:") {
			pres++
		} else {
			final = append(final, d)
		}
	}
	want := 1
	if marker == "" && static == "none" {
		want = 0
	}
	if len(final) != want {
		emit("C04", fmt.Sprintf("%d responses on the reply subject, want %d: %v", len(final), want, final))
	}
	// C07: everything published is protocol-conformant
	for _, m := range r.Pubs {
		if m.Subject == "REPLY" || m.Subject == "PROBE" {
			if e := ref.ValidateResponse(m.Data, http && m.Subject == "REPLY"); e != "" {
				emit("C07", fmt.Sprintf("response %q: %s", m.Data, e))
			}
		} else if e := ref.ValidateEvent(m.Subject, m.Data); e != "" {
			emit("C07", fmt.Sprintf("message on %q %q: %s", m.Subject, m.Data, e))
		}
	}
	// C05: the right handler, and the documented mapping of outcomes to responses
	gotMarker := ""
	if len(r.Invoked) > 0 {
		gotMarker = r.Invoked[0].Marker
	}
	if gotMarker != marker {
		emit("C05", fmt.Sprintf("invoked handler %q, reference dispatch says %q", gotMarker, marker))
	}
	class := "none"
	if len(final) > 0 {
		var meta bool
		class, meta = ref.ResponseClass(final[0])
		wantClass, wantMeta, metaSpec := "", false, true
		wantPre := 0
		if marker == "" {
			wantClass = "error:system." + static
		} else {
			kind := strings.Split(marker, "/")[1]
			wantClass, wantMeta, metaSpec, wantPre, _ = ref.ScriptOutcome(kind, c.Script, http)
		}
		if want == 1 && (class != wantClass || (metaSpec && meta != wantMeta)) {
			emit("C05", fmt.Sprintf("response %q is of class %s meta=%v, reference mapping says %s meta=%v", final[0], class, meta, wantClass, wantMeta))
		}
		if marker != "" && pres != wantPre {
			emit("C05", fmt.Sprintf("%d pre-responses, script has %d Timeout calls before it stops", pres, wantPre))
		}
		// C18: the client package classifies it as exactly one of result/resource/error
		resp := resprot.ParseResponse([]byte(final[0]))
		n := 0
		got := ""
		if resp.HasResult() {
			n++
			got = "result"
		}
		if resp.HasResource() {
			n++
			got = "resource"
		}
		if resp.HasError() {
			n++
			got = "error:" + resp.Error.Code
		}
		if n != 1 || got != class {
			emit("C18", fmt.Sprintf("resprot.ParseResponse(%q) classifies it as %q (%d classes), the message is %s", final[0], got, n, class))
		}
		if class == "result" && marker != "" {
			kind := strings.Split(marker, "/")[1]
			switch kind {
			case "call":
				var v map[string]int
				if err := resp.ParseResult(&v); err != nil || v["r"] != 1 {
					emit("C18", fmt.Sprintf("ParseResult of %q gives %v (err %v), the handler sent {r:1}", final[0], v, err))
				}
			case "get":
				var v map[string]int
				if _, err := resp.ParseModel(&v); err != nil || v["v"] != 1 {
					emit("C18", fmt.Sprintf("ParseModel of %q gives %v (err %v), the handler sent {v:1}", final[0], v, err))
				}
			case "access":
				g, cl, err := resp.AccessResult()
				if err != nil || !g || cl != "*" {
					emit("C18", fmt.Sprintf("AccessResult of %q gives %v %q (err %v)", final[0], g, cl, err))
				}
			}
		}
		if class == "error:system.notFound" && firstReply(c.Script) == "errStd" {
			var e struct {
				Error struct {
					Code, Message string
					Data          map[string]int
				}
			}
			json.Unmarshal([]byte(final[0]), &e)
			if e.Error.Message != "User 42 not found" || e.Error.Data["id"] != 42 {
				emit("C05", fmt.Sprintf("error value was not returned verbatim: %q", final[0]))
				emit("C18", fmt.Sprintf("the response %q does not decode to the error the handler supplied (message \"User 42 not found\", data {id:42})", final[0]))
			}
		}
		if class == "error:system.notFound" && firstReply(c.Script) == "errStdData" {
			var e struct {
				Error struct {
					Code, Message string
					Data          map[string]int
				}
			}
			json.Unmarshal([]byte(final[0]), &e)
			if e.Error.Message != "Not found" || e.Error.Data["id"] != 42 {
				emit("C05", fmt.Sprintf("error value was not returned verbatim (data {id:42} lost): %q", final[0]))
			}
		}
		if class == "error:custom.error" {
			var e struct {
				Error struct {
					Code, Message string
					Data          map[string]int
				}
			}
			json.Unmarshal([]byte(final[0]), &e)
			if e.Error.Message != "Custom" || e.Error.Data["x"] != 1 {
				emit("C05", fmt.Sprintf("error value was not returned verbatim: %q", final[0]))
			}
		}
	}
	return class
}

func firstLineOf(s string) string {
	if i := strings.IndexByte(s, '\n'); i >= 0 {
		return s[:i]
	}
	return s
}

// c04Extra: further actions, enumerated in scripts of length <= 2 that contain at least one of them.
var c04Extra = []string{"errwrap", "errStd", "errStdData", "panicWrap", "setmeta201"}

func c04Scripts(maxLen int, f func([]string) bool) {
	if maxLen > 0 {
		all := append(append([]string{}, c04Actions...), c04Extra...)
		isExtra := func(a string) bool {
			return a == "errwrap" || a == "errStd" || a == "errStdData" || a == "panicWrap" || a == "setmeta201"
		}
		for _, a := range all {
			if isExtra(a) && !f([]string{a}) {
				return
			}
			if strings.HasPrefix(a, "panic") {
				continue
			}
			for _, b := range all {
				if (isExtra(a) || isExtra(b)) && !f([]string{a, b}) {
					return
				}
			}
		}
	}
	var rec func(cur []string) bool
	rec = func(cur []string) bool {
		if !f(cur) {
			return false
		}
		if len(cur) == maxLen {
			return true
		}
		if n := len(cur); n > 0 && strings.HasPrefix(cur[n-1], "panic") {
			return true // nothing runs after a panic
		}
		for _, a := range c04Actions {
			if !rec(append(append([]string{}, cur...), a)) {
				return false
			}
		}
		return true
	}
	rec(nil)
}

func runC04(c *seqCtx) {
	maxLen := 3
	if c.thorough {
		maxLen = 4
	}
	kinds := []string{"access", "get", "call.m", "call.new", "call.zz", "auth.m", "auth.zz"}
	regs := []string{"none", "other", "exact", "star", "new", "noaccess"}
	pls := []string{"empty", "obj", "full", "malformed", "http"}
	for _, k := range kinds {
		for _, rg := range regs {
			for _, pl := range pls {
				base := c04Case{Kind: k, Reg: rg, Payload: pl}
				rc := scen.ReqCase{Specs: base.specs(), Subject: base.subject(), Payload: []byte(c04Payloads[pl]), NoData: pl == "empty"}
				marker, _, _, _ := ref.Dispatch("t", refSpecs(rc.Specs), rc.Subject, rc.Payload, rc.NoData)
				ml := maxLen
				if marker == "" {
					ml = 0 // no handler runs: the script is irrelevant
				}
				c04Scripts(ml, func(script []string) bool {
					if !c.Mine() {
						return true
					}
					cs := base
					cs.Script = script
					// actions that do not exist for this request kind are skipped
					kind := strings.Split(marker+"//", "/")[1]
					for _, a := range script {
						if a == "resource" && kind != "call" && kind != "auth" {
							return true
						}
						if (a == "setmeta" || a == "setmeta201") && (kind == "get" || kind == "new") {
							return true // not part of those request interfaces
						}
					}
					class := c04Judge(cs, func(prop, desc string) { c.Fail(prop, desc+" ["+cs.String()+"]", cs.String()) })
					c.Eval(cs.String() + "=>" + class)
					c.out.Transitions++
					if c.out.Evaluations == 1 {
						c.Sample(cs.String() + " => " + class)
					}
					return !c.Stopped()
				})
				if c.Stopped() {
					return
				}
			}
		}
	}
	// bursts: n requests delivered to one resource before its worker gets to run (one worker), mixed with
	// requests to a second resource: each request is answered exactly once, in order per resource
	for _, n := range []int{40, 300, 700} {
		if c.Mine() {
			in := fmt.Sprintf("burst|%d", n)
			c04Burst(n, func(desc string) { c.Fail("C04", desc+" ["+in+"]", in) })
			c.Eval(in)
			c.out.Transitions += int64(n)
		}
	}
	c.Sample("call.m|exact|http|setmeta,timeout,ok => result with meta")
	c.out.States = c.out.DistinctNontrivial
}

// c04Burst delivers n get requests for t.r (and every 7th time one for t.q) while the single worker cannot run,
// then lets the service work them off.
func c04Burst(n int, emit func(desc string)) {
	var pubs []envnats.Msg
	r := scen.RunSeq(func() {
		conn := envnats.New()
		conn.Quiet = true
		conn.KeepPubs = true
		s := res.NewService("t")
		s.SetLogger(nil)
		s.SetWorkerCount(1)
		s.SetInChannelSize(n + n/7 + 8)
		for _, name := range []string{"r", "q"} {
			name := name
			s.Handle(name, res.GetModel(func(r res.ModelRequest) { r.Model(map[string]string{"from": name, "q": r.Query()}) }))
		}
		served := make(chan struct{}, 1)
		s.SetOnServe(func(*res.Service) { vsched.Send(served, struct{}{}) })
		vsched.Go("serve", func() { s.Serve(conn) })
		vsched.Recv(served)
		n0 := len(conn.Pubs)
		for i := 0; i < n; i++ {
			conn.Inject("get.t.r", fmt.Sprintf("R%d", i), []byte(fmt.Sprintf(`{"query":"i=%d"}`, i)))
			if i%7 == 3 {
				conn.Inject("get.t.q", fmt.Sprintf("Q%d", i), []byte(fmt.Sprintf(`{"query":"i=%d"}`, i)))
			}
		}
		vsched.AwaitQuiescence()
		pubs = append(pubs, conn.Pubs[n0:]...)
	})
	for _, p := range r.Panics {
		emit("a thread of the service panicked: " + firstLineOf(p))
	}
	if r.Deadlock {
		emit("the service deadlocked")
	}
	count := map[string]int{}
	last := map[byte]int{'R': -1, 'Q': -1}
	for _, m := range pubs {
		if len(m.Subject) < 2 || (m.Subject[0] != 'R' && m.Subject[0] != 'Q') {
			continue
		}
		count[m.Subject]++
		var i int
		fmt.Sscanf(m.Subject[1:], "%d", &i)
		from := map[byte]string{'R': "r", 'Q': "q"}[m.Subject[0]]
		if want := fmt.Sprintf(`{"result":{"model":{"from":"%s","q":"i=%d"}}}`, from, i); m.Data != want {
			emit(fmt.Sprintf("request %s of a burst of %d answered with %s, want %s", m.Subject, n, m.Data, want))
		}
		if i <= last[m.Subject[0]] {
			emit(fmt.Sprintf("request %s of a burst of %d answered after request %d of the same resource", m.Subject, n, last[m.Subject[0]]))
		}
		last[m.Subject[0]] = i
	}
	for i := 0; i < n; i++ {
		if k := fmt.Sprintf("R%d", i); count[k] != 1 {
			emit(fmt.Sprintf("request %s of a burst of %d requests to one resource got %d responses, want exactly 1", k, n, count[k]))
		}
		if k := fmt.Sprintf("Q%d", i); i%7 == 3 && count[k] != 1 {
			emit(fmt.Sprintf("request %s (second resource) during a burst of %d got %d responses, want exactly 1", k, n, count[k]))
		}
	}
}

func replayC04(input string) []string {
	var out []string
	if strings.HasPrefix(input, "burst|") {
		var n int
		fmt.Sscanf(input, "burst|%d", &n)
		c04Burst(n, func(desc string) { out = append(out, "C04: "+desc) })
		return out
	}
	c04Judge(parseC04(input), func(prop, desc string) { out = append(out, prop+": "+desc) })
	return out
}

// firstReply returns the first action of the script that sends a reply.
func firstReply(script []string) string {
	for _, a := range script {
		switch a {
		case "ok", "resource", "err", "errplain", "notfound", "errwrap", "errStd", "errStdData":
			return a
		}
		if strings.HasPrefix(a, "panic") {
			return a
		}
	}
	return ""
}

package main

import (
	"encoding/json"
	"errors"
	"fmt"
	"strings"
	"time"

	res "github.com/jirenius/go-res"

	"verif/envnats"
	"verif/ref"
	"verif/scen"
	"verif/vsched"
)

func init() {
	seqChecks["c08"] = &seqCheck{run: runC08, replay: replayC08,
		rule: "every sequence of <=3 (4 thorough) event calls over 16 actions x apply handler {absent, ok, error, no-change} x listeners {none, same pattern, other handler's Listeners map with one or three entries, mounted mux, mounted mux with the listener added after a first lookup, two listeners, a listener emitting a nested event} x type {model, collection, unset} x context {call handler, With callback}; one global log fed by apply handlers, connection and listeners is compared with the reference log; distinct = distinct (case, log) pairs"}
}

var c08Actions = []string{"change", "changeEmpty", "add0", "addNeg", "remove0", "removeNeg", "create", "delete", "custom", "customNil", "evChange", "evDotted", "evEmpty", "evDel", "timeout", "reply"}
var c08Apply = []string{"absent", "ok", "error", "nochange"}
var c08Lis = []string{"none", "same", "other", "othermap", "mounted", "mountedlate", "two", "nested"}
var c08Types = []string{"model", "collection", "unset"}

type c08Case struct {
	Script []string
	Apply  string
	Lis    string
	Type   string
	Ctx    string // call | with
}

func (c c08Case) String() string {
	return strings.Join(c.Script, ",") + "|" + c.Apply + "|" + c.Lis + "|" + c.Type + "|" + c.Ctx
}

func parseC08(s string) c08Case {
	f := strings.Split(s, "|")
	c := c08Case{Apply: f[1], Lis: f[2], Type: f[3], Ctx: f[4]}
	if f[0] != "" {
		c.Script = strings.Split(f[0], ",")
	}
	return c
}

func jsonOf(v interface{}) string {
	b, _ := json.Marshal(v)
	return string(b)
}

// c08Reference computes the expected global log.
func c08Reference(c c08Case, rname string) []string {
	var log []string
	nlis := map[string]int{"none": 0, "same": 1, "other": 1, "othermap": 1, "mounted": 1, "mountedlate": 1, "two": 2, "nested": 2}[c.Lis]
	ev := "event." + rname + "."
	listeners := func(desc string) {
		for i := 0; i < nlis; i++ {
			log = append(log, fmt.Sprintf("listener%d %s", i, desc))
			if c.Lis == "nested" && i == 0 && !strings.HasPrefix(desc, "custom") {
				// the first listener emits a custom event of its own while handling the outer one
				log = append(log, "pub "+ev+`custom {"p":1}`, `listener0 custom payload={"p":1}`, `listener1 custom payload={"p":1}`)
			}
		}
	}
	replied := false
	for _, a := range c.Script {
		failed := false
		switch a {
		case "change":
			if c.Type == "collection" {
				failed = true
				break
			}
			old := "null"
			switch c.Apply {
			case "ok":
				log = append(log, "apply change")
				old = `{"k":"old"}`
			case "error":
				log = append(log, "apply change")
				failed = true
			case "nochange":
				log = append(log, "apply change")
				continue
			}
			if failed {
				break
			}
			log = append(log, "pub "+ev+`change {"values":{"k":1}}`)
			listeners(`change new={"k":1} old=` + old)
		case "changeEmpty":
			if c.Type == "collection" {
				failed = true
			}
		case "add0":
			if c.Type == "model" {
				failed = true
				break
			}
			if c.Apply != "absent" {
				log = append(log, "apply add")
				if c.Apply == "error" {
					failed = true
					break
				}
			}
			log = append(log, "pub "+ev+`add {"value":"v","idx":0}`)
			listeners(`add value="v" idx=0`)
		case "addNeg", "removeNeg":
			failed = true
		case "remove0":
			if c.Type == "model" {
				failed = true
				break
			}
			val := "null"
			if c.Apply != "absent" {
				log = append(log, "apply remove")
				if c.Apply == "error" {
					failed = true
					break
				}
				val = `"removed"`
			}
			log = append(log, "pub "+ev+`remove {"idx":0}`)
			listeners(`remove value=` + val + ` idx=0`)
		case "create":
			if c.Apply != "absent" {
				log = append(log, "apply create")
				if c.Apply == "error" {
					failed = true
					break
				}
			}
			log = append(log, "pub "+ev+"create ")
			listeners(`create data={"c":1}`)
		case "delete":
			data := "null"
			if c.Apply != "absent" {
				log = append(log, "apply delete")
				if c.Apply == "error" {
					failed = true
					break
				}
				data = `"deleted"`
			}
			log = append(log, "pub "+ev+"delete ")
			listeners(`delete data=` + data)
		case "custom":
			log = append(log, "pub "+ev+`custom {"p":1}`)
			listeners(`custom payload={"p":1}`)
		case "customNil":
			// a custom event without payload is published (empty payload) and handed to the listeners
			log = append(log, "pub "+ev+"ping ")
			listeners(`ping payload=null`)
		case "evChange", "evDotted", "evEmpty", "evDel":
			failed = true
		case "timeout":
			if c.Ctx == "call" {
				log = append(log, `pub REPLY timeout:"2000"`)
			}
		case "reply":
			if c.Ctx == "call" {
				if replied {
					failed = true
					break
				}
				replied = true
				log = append(log, `pub REPLY {"result":null}`)
			}
		}
		if failed {
			log = append(log, "failed "+a)
			if c.Ctx == "call" {
				// the panic ends the handler; the service answers with an error if no reply was sent
				if !replied {
					log = append(log, "pub REPLY <error>")
				}
				return log
			}
		}
	}
	if c.Ctx == "call" && !replied {
		log = append(log, "pub REPLY <error>")
	}
	return log
}

func c08Run(c c08Case) (log []string, rname string, problems []string) {
	rname = "t.r"
	if c.Lis == "mounted" || c.Lis == "mountedlate" {
		rname = "t.sub.r"
	}
	r := scen.RunSeq(func() {
		conn := envnats.New()
		conn.Quiet = true
		conn.OnPub = func(m envnats.Msg) {
			if m.Subject == "system.reset" {
				return
			}
			d := m.Data
			if m.Subject == "REPLY" && strings.HasPrefix(d, `{"error"`) {
				d = "<error>"
			}
			log = append(log, "pub "+m.Subject+" "+d)
		}
		s := res.NewService("t")
		s.SetLogger(nil)
		s.SetWorkerCount(1)
		applyErr := errors.New("apply failed")
		var opts []res.Option
		switch c.Type {
		case "model":
			opts = append(opts, res.Model)
		case "collection":
			opts = append(opts, res.Collection)
		}
		if c.Apply != "absent" {
			opts = append(opts,
				res.ApplyChange(func(r res.Resource, ch map[string]interface{}) (map[string]interface{}, error) {
					log = append(log, "apply change")
					switch c.Apply {
					case "error":
						return nil, applyErr
					case "nochange":
						return map[string]interface{}{}, nil
					}
					return map[string]interface{}{"k": "old"}, nil
				}),
				res.ApplyAdd(func(r res.Resource, v interface{}, idx int) error {
					log = append(log, "apply add")
					if c.Apply == "error" {
						return applyErr
					}
					return nil
				}),
				res.ApplyRemove(func(r res.Resource, idx int) (interface{}, error) {
					log = append(log, "apply remove")
					if c.Apply == "error" {
						return nil, applyErr
					}
					return "removed", nil
				}),
				res.ApplyCreate(func(r res.Resource, d interface{}) error {
					log = append(log, "apply create")
					if c.Apply == "error" {
						return applyErr
					}
					return nil
				}),
				res.ApplyDelete(func(r res.Resource) (interface{}, error) {
					log = append(log, "apply delete")
					if c.Apply == "error" {
						return nil, applyErr
					}
					return "deleted", nil
				}))
		}
		lis := func(i int) func(*res.Event) {
			return func(e *res.Event) {
				d := ""
				switch e.Name {
				case "change":
					d = "change new=" + jsonOf(e.NewValues) + " old=" + jsonOf(e.OldValues)
				case "add", "remove":
					d = fmt.Sprintf("%s value=%s idx=%d", e.Name, jsonOf(e.Value), e.Idx)
				case "create", "delete":
					d = e.Name + " data=" + jsonOf(e.Data)
				default:
					d = e.Name + " payload=" + jsonOf(e.Payload)
				}
				if e.Resource == nil || e.Resource.ResourceName() != rname {
					d += " WRONG-RESOURCE"
				}
				log = append(log, fmt.Sprintf("listener%d %s", i, d))
			}
		}
		doAct := func(r res.Resource, a string, cr res.CallRequest) {
			switch a {
			case "change":
				r.ChangeEvent(map[string]interface{}{"k": 1})
			case "changeEmpty":
				r.ChangeEvent(nil)
			case "add0":
				r.AddEvent("v", 0)
			case "addNeg":
				r.AddEvent("v", -1)
			case "remove0":
				r.RemoveEvent(0)
			case "removeNeg":
				r.RemoveEvent(-1)
			case "create":
				r.CreateEvent(map[string]int{"c": 1})
			case "delete":
				r.DeleteEvent()
			case "custom":
				r.Event("custom", map[string]int{"p": 1})
			case "evChange":
				r.Event("change", nil)
			case "evDotted":
				r.Event("a.b", nil)
			case "evEmpty":
				r.Event("", map[string]int{"p": 1})
			case "evDel":
				r.Event("upd\x7f", map[string]int{"p": 1}) // DEL: a control character, not a valid name part
			case "customNil":
				r.Event("ping", nil)
			case "timeout":
				if cr != nil {
					cr.Timeout(2 * time.Second)
				}
			case "reply":
				if cr != nil {
					cr.OK(nil)
				}
			}
		}
		opts = append(opts, res.Call("go", func(r res.CallRequest) {
			for _, a := range c.Script {
				func() {
					defer func() {
						if p := recover(); p != nil {
							log = append(log, "failed "+a)
							panic(p)
						}
					}()
					doAct(r, a, r)
				}()
			}
		}))
		switch c.Lis {
		case "mounted":
			sub := res.NewMux("")
			sub.Handle("r", opts...)
			sub.AddListener("r", lis(0))
			s.Mount("sub", sub)
		case "mountedlate":
			// the listener is added through the mounted mux after the service has already looked the resource up
			sub := res.NewMux("")
			sub.Handle("r", opts...)
			s.Mount("sub", sub)
			if _, err := s.Resource("t.sub.r"); err != nil {
				problems = append(problems, "Resource before Serve failed: "+err.Error())
			}
			s.GetHandler("t.sub.r")
			sub.AddListener("r", lis(0))
		case "other":
			s.Handle("r", opts...)
			s.Handle("other", res.GetModel(func(r res.ModelRequest) { r.NotFound() }), res.OptionFunc(func(h *res.Handler) {
				h.Listeners = map[string]func(*res.Event){"r": lis(0)}
			}))
		case "othermap":
			// another handler's Listeners map with several entries: only the one registered for r may run
			s.Handle("r", opts...)
			wrong := func(tag string) func(*res.Event) {
				return func(e *res.Event) { log = append(log, "listener-of-"+tag+" called for "+e.Resource.ResourceName()) }
			}
			s.Handle("other", res.GetModel(func(r res.ModelRequest) { r.NotFound() }), res.OptionFunc(func(h *res.Handler) {
				h.Listeners = map[string]func(*res.Event){"r": lis(0), "other": wrong("other"), "other2": wrong("other2")}
			}))
			s.Handle("other2", res.GetModel(func(r res.ModelRequest) { r.NotFound() }))
		case "same":
			s.Handle("r", opts...)
			s.AddListener("r", lis(0))
		case "two":
			// two listeners that are closures of one function literal, registered from one call site
			s.Handle("r", opts...)
			for i := 0; i < 2; i++ {
				s.AddListener("r", lis(i))
			}
		case "nested":
			s.Handle("r", opts...)
			l0 := lis(0)
			s.AddListener("r", func(e *res.Event) {
				l0(e)
				if e.Name != "custom" {
					e.Resource.Event("custom", map[string]int{"p": 1})
				}
			})
			s.AddListener("r", lis(1))
		default:
			s.Handle("r", opts...)
		}
		served := make(chan struct{}, 1)
		s.SetOnServe(func(*res.Service) { vsched.Send(served, struct{}{}) })
		vsched.Go("serve", func() { s.Serve(conn) })
		vsched.Recv(served)
		if c.Ctx == "call" {
			conn.Inject("call."+rname+".go", "REPLY", nil)
		} else {
			err := s.With(rname, func(r res.Resource) {
				for _, a := range c.Script {
					func() {
						defer func() {
							if p := recover(); p != nil {
								log = append(log, "failed "+a)
							}
						}()
						doAct(r, a, nil)
					}()
				}
			})
			if err != nil {
				problems = append(problems, "With failed: "+err.Error())
			}
		}
		vsched.AwaitQuiescence()
	})
	for _, p := range r.Panics {
		problems = append(problems, "thread panicked: "+firstLineOf(p))
	}
	if r.Deadlock {
		problems = append(problems, "deadlock")
	}
	return
}

func c08Judge(c c08Case, emit func(prop, desc string)) string {
	log, rname, problems := c08Run(c)
	for _, p := range problems {
		emit("C08", p)
	}
	want := c08Reference(c, rname)
	if strings.Join(log, "\n") != strings.Join(want, "\n") {
		emit("C08", fmt.Sprintf("global log differs from the reference\n   got:  %s\n   want: %s", strings.Join(log, " ; "), strings.Join(want, " ; ")))
	}
	for _, l := range log {
		if strings.HasPrefix(l, "pub event.") {
			f := strings.SplitN(l, " ", 3)
			if e := ref.ValidateEvent(f[1], f[2]); e != "" {
				emit("C07", fmt.Sprintf("event %q %q: %s", f[1], f[2], e))
			}
		}
	}
	return strings.Join(log, ";")
}

func runC08(c *seqCtx) {
	maxLen := 3
	if c.thorough {
		maxLen = 4
	}
	var scripts [][]string
	var rec func(cur []string)
	rec = func(cur []string) {
		scripts = append(scripts, cur)
		if len(cur) == maxLen {
			return
		}
		for _, a := range c08Actions {
			rec(append(append([]string{}, cur...), a))
		}
	}
	rec(nil)
	for _, ap := range c08Apply {
		for _, li := range c08Lis {
			for _, ty := range c08Types {
				for _, ctx := range []string{"call", "with"} {
					for _, sc := range scripts {
						if len(sc) == maxLen && !c.thorough && (li == "other" || li == "othermap" || li == "mounted" || li == "mountedlate" || li == "nested") && len(sc) > 2 {
							continue // quick: the two indirect listener placements only up to length 2
						}
						if !c.Mine() {
							continue
						}
						cs := c08Case{Script: sc, Apply: ap, Lis: li, Type: ty, Ctx: ctx}
						log := c08Judge(cs, func(prop, desc string) { c.Fail(prop, desc+" ["+cs.String()+"]", cs.String()) })
						c.Eval(cs.String() + "=>" + log)
						c.out.Transitions += int64(len(sc))
						if c.Stopped() {
							return
						}
					}
				}
			}
		}
	}
	c.Sample("change,remove0,reply|ok|two|unset|call => apply change ; pub event.t.r.change ; listener0 ; listener1 ; apply remove ; ...")
	c.out.States = c.out.DistinctNontrivial
}

func replayC08(input string) []string {
	var out []string
	c08Judge(parseC08(input), func(prop, desc string) { out = append(out, prop+": "+desc) })
	return out
}

// Package envnats is the in-memory model of a NATS connection used by every harness (DESIGN.md 3).
// It implements res.Conn. Publishes and subscriptions are recorded as vsched observations on the
// monitor Mon; subscriptions are real *nats.Subscription values whose Drain/Unsubscribe calls are
// observed through the overlay hook in nats.go.
package envnats

import (
	"errors"
	"fmt"
	"regexp"
	"strings"
	"sync"

	nats "github.com/nats-io/nats.go"

	"verif/vsched"
)

// Mon is the monitor all connection observations are emitted on.
const Mon = "log"

// Sub is one subscription of the connection.
type Sub struct {
	Subject      string
	Queue        string
	Ch           chan *nats.Msg
	NS           *nats.Subscription
	Active       bool // has interest (not drained / unsubscribed)
	Drained      int
	Unsubscribed int
	dropInflight bool
	max          int // AutoUnsubscribe limit (0 = none)
	delivered    int
}

// Conn is the in-memory connection.
type Conn struct {
	mu       sync.Mutex // real mutex, as nats.Conn has one; never held across a scheduling point
	Subs     []*Sub
	Closed   int
	nsub     int
	FailSub  map[int]bool // the k-th (0-based) subscribe call fails
	FailPub  map[int]bool // the k-th publish call fails
	npub     int
	Quiet    bool  // do not emit observations for publishes (used by bulk sequential checks)
	Pubs     []Msg // every publish, in order (thread-confined users only: sequential checks)
	KeepPubs bool
	Lenient  bool      // accept invalid subscription subjects (like the repository's own mock)
	OnPub    func(Msg) // called on the publishing thread for every successful publish
	inbox    map[string]string
}

// Msg is a recorded publish.
type Msg struct {
	Subject string
	Reply   string
	Data    string
}

var ErrSubFail = errors.New("envnats: injected subscribe failure")
var ErrPubFail = errors.New("envnats: injected publish failure")

var inboxRe = regexp.MustCompile(`_INBOX\.[A-Za-z0-9]+`)

// canon replaces random inbox subjects by _INBOX.#k in order of first appearance, so that observations
// are identical across executions.
func (c *Conn) canon(s string) string {
	if !strings.Contains(s, "_INBOX.") {
		return s
	}
	c.mu.Lock()
	defer c.mu.Unlock()
	return inboxRe.ReplaceAllStringFunc(s, func(m string) string {
		if c.inbox == nil {
			c.inbox = map[string]string{}
		}
		n, ok := c.inbox[m]
		if !ok {
			n = fmt.Sprintf("_INBOX.#%d", len(c.inbox))
			c.inbox[m] = n
		}
		return n
	})
}

func (c *Conn) emit(text string) { vsched.Emit(Mon, c.canon(text)) }

// Reset drops the process-wide subscription hook registry (call between executions).
func Reset() { nats.VerifForgetSubscriptions() }

// New returns an empty connection.
func New() *Conn { return &Conn{} }

// BadSubject mirrors nats.go's badSubject: empty subject or an empty token.
func BadSubject(subj string) bool {
	if strings.ContainsAny(subj, " \t\r\n") {
		return true
	}
	tokens := strings.Split(subj, ".")
	for _, t := range tokens {
		if t == "" {
			return true
		}
	}
	return false
}

// Match reports whether a NATS subscription subject matches a concrete subject.
func Match(pattern, subject string) bool {
	pt := strings.Split(pattern, ".")
	st := strings.Split(subject, ".")
	for i, p := range pt {
		if p == ">" {
			return i == len(pt)-1 && len(st) > i
		}
		if i >= len(st) {
			return false
		}
		if p != "*" && p != st[i] {
			return false
		}
	}
	return len(pt) == len(st)
}

func (c *Conn) Publish(subject string, payload []byte) error {
	return c.PublishRequest(subject, "", payload)
}

func (c *Conn) PublishRequest(subject, reply string, payload []byte) error {
	c.mu.Lock()
	k := c.npub
	c.npub++
	fail := c.FailPub[k]
	if c.KeepPubs && !fail {
		c.Pubs = append(c.Pubs, Msg{subject, reply, string(payload)})
	}
	c.mu.Unlock()
	if fail {
		if !c.Quiet {
			c.emit("pubfail " + subject)
		}
		return ErrPubFail
	}
	if c.OnPub != nil {
		c.OnPub(Msg{subject, reply, string(payload)})
	}
	if !c.Quiet {
		if reply != "" {
			c.emit("pub " + subject + " reply=" + reply + " " + string(payload))
		} else {
			c.emit("pub " + subject + " " + string(payload))
		}
	}
	c.deliver(subject, reply, payload, false)
	return nil
}

func (c *Conn) matching(subject string) []*Sub {
	c.mu.Lock()
	defer c.mu.Unlock()
	var out []*Sub
	for _, s := range c.Subs {
		if s.Active && Match(s.Subject, subject) {
			out = append(out, s)
		}
	}
	return out
}

// deliver places the message into every matching subscription channel; a full channel drops the
// message (slow consumer), as the real client does, unless block is set.
func (c *Conn) deliver(subject, reply string, payload []byte, block bool) int {
	n := 0
	for _, s := range c.matching(subject) {
		m := &nats.Msg{Subject: subject, Reply: reply, Data: payload, Sub: s.NS}
		if block {
			vsched.WaitSend(s.Ch)
			// like the real client, the message is placed on the channel under the lock that Close and
			// Unsubscribe take (the send cannot block: WaitSend was granted and nothing ran since)
			gone := c.put(s, m)
			if gone {
				// the connection was closed / the subscription removed while the message was on its way
				vsched.Note(Mon, c.canon("undeliverable "+subject))
				continue
			}
			n++
		} else {
			vsched.Touch(s.Ch)
			c.mu.Lock()
			sent := false
			if !s.dropInflight {
				select {
				case s.Ch <- m:
					sent = true
					s.delivered++
					if s.max > 0 && s.delivered >= s.max {
						s.Active = false
						s.dropInflight = true
					}
				default:
				}
			}
			c.mu.Unlock()
			if sent {
				n++
			} else {
				c.emit("slowconsumer " + subject)
			}
		}
	}
	return n
}

// put places m on the subscription's channel under the connection lock (as the real client delivers under
// the lock that Close and Unsubscribe take); it reports true if the subscription is gone. A send on a channel
// the service has already closed panics, as it would in the real client's read loop; the lock is released.
func (c *Conn) put(s *Sub, m *nats.Msg) (gone bool) {
	c.mu.Lock()
	defer c.mu.Unlock()
	if s.dropInflight {
		return true
	}
	s.Ch <- m
	s.delivered++
	if s.max > 0 && s.delivered >= s.max {
		// AutoUnsubscribe: the subscription is removed once the limit is reached
		s.Active = false
		s.dropInflight = true
	}
	return false
}

// Inject delivers a message from the outside world (a gateway) to the matching subscriptions,
// blocking while a channel is full (the message is still on its way). It returns the number of
// deliveries.
func (c *Conn) Inject(subject, reply string, payload []byte) int {
	c.emit("inject " + subject + " reply=" + reply + " " + string(payload))
	return c.deliver(subject, reply, payload, true)
}

// Inflight is a message accepted by the server for delivery to one subscription.
type Inflight struct {
	s *Sub
	m *nats.Msg
}

// Send publishes a message from the outside world: it is accepted for every subscription that has
// interest now and delivered later by Arrive.
func (c *Conn) Send(subject, reply string, payload []byte) []Inflight {
	c.emit("send " + subject + " reply=" + reply + " " + string(payload))
	var out []Inflight
	for _, s := range c.matching(subject) {
		out = append(out, Inflight{s, &nats.Msg{Subject: subject, Reply: reply, Data: payload, Sub: s.NS}})
	}
	return out
}

// Arrive delivers an in-flight message: dropped if the subscription was unsubscribed meanwhile,
// still delivered if it was only drained.
func (c *Conn) Arrive(f Inflight) bool {
	c.mu.Lock()
	drop := f.s.dropInflight
	c.mu.Unlock()
	if drop {
		c.emit("arrive-dropped " + f.m.Subject)
		return false
	}
	vsched.WaitSend(f.s.Ch)
	drop = c.put(f.s, f.m)
	if drop {
		vsched.Note(Mon, c.canon("arrive-dropped "+f.m.Subject))
		return false
	}
	vsched.Note(Mon, c.canon("arrived "+f.m.Subject))
	return true
}

func (c *Conn) ChanSubscribe(subject string, ch chan *nats.Msg) (*nats.Subscription, error) {
	return c.ChanQueueSubscribe(subject, "", ch)
}

func (c *Conn) ChanQueueSubscribe(subject, queue string, ch chan *nats.Msg) (*nats.Subscription, error) {
	c.mu.Lock()
	k := c.nsub
	c.nsub++
	fail := c.FailSub[k]
	c.mu.Unlock()
	if fail {
		c.emit("subfail " + subject)
		return nil, ErrSubFail
	}
	if !c.Lenient && BadSubject(subject) {
		c.emit("subbad " + subject)
		return nil, nats.ErrBadSubject
	}
	s := &Sub{Subject: subject, Queue: queue, Ch: ch, Active: true}
	s.NS = nats.VerifNewSubscription(subject, queue, func(op string) error {
		c.emit(fmt.Sprintf("%s %s", op, subject))
		c.mu.Lock()
		was := s.Active
		if strings.HasPrefix(op, "autounsubscribe:") {
			fmt.Sscanf(op, "autounsubscribe:%d", &s.max)
			if s.max > 0 && s.delivered >= s.max {
				s.Active = false
				s.dropInflight = true
			}
		}
		switch op {
		case "drain":
			s.Drained++
			s.Active = false
		case "unsubscribe":
			s.Unsubscribed++
			s.Active = false
			s.dropInflight = true
		}
		c.mu.Unlock()
		if !was {
			return nats.ErrBadSubscription
		}
		return nil
	})
	c.mu.Lock()
	c.Subs = append(c.Subs, s)
	c.mu.Unlock()
	c.emit("sub " + subject + " q=" + queue)
	return s.NS, nil
}

func (c *Conn) Close() {
	// the observation (a scheduling point) comes first: the caller may be preempted right before Close takes effect
	c.emit("close")
	c.mu.Lock()
	c.Closed++
	for _, s := range c.Subs {
		s.Active = false
		s.dropInflight = true
	}
	c.mu.Unlock()
}

// ActiveSubs returns the subjects of subscriptions that still have interest.
func (c *Conn) ActiveSubs() []string {
	c.mu.Lock()
	defer c.mu.Unlock()
	var out []string
	for _, s := range c.Subs {
		if s.Active {
			out = append(out, s.Subject)
		}
	}
	return out
}

// Package vsync replaces "sync" in the rewritten packages: Mutex, RWMutex, Cond, WaitGroup and Locker
// are scheduler objects (state lives in the scheduler, keyed by address); Once, Pool and Map are the
// real ones. Outside a controlled execution every type falls back to a real primitive embedded in it.
package vsync

import (
	"runtime"
	"sync"
	"sync/atomic"
	"unsafe"

	"verif/vsched"
)

type (
	Once = sync.Once
	Map  = sync.Map
)

// Pool is a deterministic replacement for sync.Pool: a LIFO free list that never drops an item (the real
// pool drops items at GC time and, under the race detector, at random: uncontrolled nondeterminism).
type Pool struct {
	New   func() any
	mu    sync.Mutex
	items []any
	gen   uint64
}

// sync: a pool kept in a package-level variable would carry items from one explored execution into the next
// (executions must all start from the same state); every pool is therefore emptied when it is first used in
// a new execution, which sync.Pool's contract allows at any time.
func (p *Pool) sync() {
	if g := vsched.ExecutionGen(); g != p.gen {
		p.gen = g
		p.items = nil
	}
}

func (p *Pool) Get() any {
	p.mu.Lock()
	p.sync()
	if n := len(p.items); n > 0 {
		x := p.items[n-1]
		p.items = p.items[:n-1]
		p.mu.Unlock()
		return x
	}
	p.mu.Unlock()
	if p.New != nil {
		return p.New()
	}
	return nil
}

func (p *Pool) Put(x any) {
	if x == nil {
		return
	}
	p.mu.Lock()
	p.sync()
	p.items = append(p.items, x)
	p.mu.Unlock()
}

// Locker is sync.Locker.
type Locker = sync.Locker

// Outside a controlled execution (set-up code of harnesses, sequential checks that do not need the scheduler)
// every primitive falls back to a real one embedded in it (a side table keyed by address kept every object
// that ever used a lock alive: 2.7 KB per history in the C11 enumeration).

// fbMutex / fbRWMutex are the fallback locks used outside controlled executions (sequential harness code).
// Unlike sync's, an unlock of an unlocked lock is an ordinary (recoverable) panic instead of a fatal error,
// so that a sequential check can report it as a finding about the code under test.
type fbMutex struct{ state atomic.Int32 }

func (m *fbMutex) Lock() {
	for !m.state.CompareAndSwap(0, 1) {
		runtime.Gosched()
	}
}

func (m *fbMutex) TryLock() bool { return m.state.CompareAndSwap(0, 1) }

func (m *fbMutex) Unlock() {
	if !m.state.CompareAndSwap(1, 0) {
		panic("sync: unlock of unlocked mutex")
	}
}

type fbRWMutex struct {
	mu      fbMutex
	readers int
	writer  bool
}

func (m *fbRWMutex) RLock() {
	for {
		m.mu.Lock()
		if !m.writer {
			m.readers++
			m.mu.Unlock()
			return
		}
		m.mu.Unlock()
		runtime.Gosched()
	}
}

func (m *fbRWMutex) RUnlock() {
	m.mu.Lock()
	if m.readers == 0 {
		m.mu.Unlock()
		panic("sync: RUnlock of unlocked RWMutex")
	}
	m.readers--
	m.mu.Unlock()
}

func (m *fbRWMutex) Lock() {
	for {
		m.mu.Lock()
		if !m.writer && m.readers == 0 {
			m.writer = true
			m.mu.Unlock()
			return
		}
		m.mu.Unlock()
		runtime.Gosched()
	}
}

func (m *fbRWMutex) Unlock() {
	m.mu.Lock()
	if !m.writer {
		m.mu.Unlock()
		panic("sync: Unlock of unlocked RWMutex")
	}
	m.writer = false
	m.mu.Unlock()
}

// Mutex is a scheduler-owned mutual exclusion lock.
type Mutex struct {
	b  byte
	fb fbMutex
}

func (m *Mutex) Lock() {
	if !vsched.Active() {
		m.fb.Lock()
		return
	}
	vsched.MutexLock(unsafe.Pointer(m))
}

func (m *Mutex) TryLock() bool {
	if !vsched.Active() {
		return m.fb.TryLock()
	}
	return vsched.MutexTryLock(unsafe.Pointer(m))
}

func (m *Mutex) Unlock() {
	if !vsched.Active() {
		m.fb.Unlock()
		return
	}
	vsched.MutexUnlock(unsafe.Pointer(m))
}

// RWMutex is a scheduler-owned reader/writer lock with writer preference.
type RWMutex struct {
	r, w byte
	fb   fbRWMutex
}

func (m *RWMutex) RLock() {
	if !vsched.Active() {
		m.fb.RLock()
		return
	}
	vsched.RWRLock(unsafe.Pointer(m), unsafe.Pointer(&m.r))
}

func (m *RWMutex) RUnlock() {
	if !vsched.Active() {
		m.fb.RUnlock()
		return
	}
	vsched.RWRUnlock(unsafe.Pointer(m), unsafe.Pointer(&m.w))
}

func (m *RWMutex) Lock() {
	if !vsched.Active() {
		m.fb.Lock()
		return
	}
	vsched.RWLock(unsafe.Pointer(m), unsafe.Pointer(&m.r), unsafe.Pointer(&m.w))
}

func (m *RWMutex) Unlock() {
	if !vsched.Active() {
		m.fb.Unlock()
		return
	}
	vsched.RWUnlock(unsafe.Pointer(m), unsafe.Pointer(&m.r))
}

type rlocker RWMutex

func (r *rlocker) Lock()   { (*RWMutex)(r).RLock() }
func (r *rlocker) Unlock() { (*RWMutex)(r).RUnlock() }

// RLocker returns a Locker that read-locks m.
func (m *RWMutex) RLocker() Locker { return (*rlocker)(m) }

// Cond is a scheduler-owned condition variable. L must be a *Mutex.
type Cond struct {
	L Locker
	b byte
}

// NewCond returns a new Cond with Locker l.
func NewCond(l Locker) *Cond { return &Cond{L: l} }

func (c *Cond) lockAddr() unsafe.Pointer {
	m, ok := c.L.(*Mutex)
	if !ok {
		panic("vsync: Cond.L must be a *vsync.Mutex")
	}
	return unsafe.Pointer(m)
}

func (c *Cond) Wait() {
	if !vsched.Active() {
		panic("vsync: Cond.Wait outside a controlled execution")
	}
	vsched.CondWait(unsafe.Pointer(&c.b), c.lockAddr())
}

func (c *Cond) Signal() {
	if !vsched.Active() {
		return
	}
	vsched.CondSignal(unsafe.Pointer(&c.b))
}

func (c *Cond) Broadcast() {
	if !vsched.Active() {
		return
	}
	vsched.CondBroadcast(unsafe.Pointer(&c.b))
}

// WaitGroup is a scheduler-owned wait group.
type WaitGroup struct {
	b  byte
	fb sync.WaitGroup
}

func (w *WaitGroup) Add(n int) {
	if !vsched.Active() {
		w.fb.Add(n)
		return
	}
	vsched.WGAdd(unsafe.Pointer(w), n)
}

func (w *WaitGroup) Done() { w.Add(-1) }

func (w *WaitGroup) Wait() {
	if !vsched.Active() {
		w.fb.Wait()
		return
	}
	vsched.WGWait(unsafe.Pointer(w))
}

// Package vatomic replaces "sync/atomic" in the rewritten packages: a scheduling point before every
// operation, then the real operation (executed by the thread itself, so the race detector sees its
// native semantics).
package vatomic

import (
	"sync/atomic"
	"unsafe"

	"verif/vsched"
)

func LoadInt32(p *int32) int32 {
	vsched.AtomicPoint(unsafe.Pointer(p), false)
	v := atomic.LoadInt32(p)
	vsched.AfterAtomic(unsafe.Pointer(p))
	return v
}
func StoreInt32(p *int32, v int32) {
	vsched.AtomicPoint(unsafe.Pointer(p), true)
	atomic.StoreInt32(p, v)
}
func AddInt32(p *int32, d int32) int32 {
	vsched.AtomicPoint(unsafe.Pointer(p), true)
	return atomic.AddInt32(p, d)
}
func SwapInt32(p *int32, v int32) int32 {
	vsched.AtomicPoint(unsafe.Pointer(p), true)
	return atomic.SwapInt32(p, v)
}
func CompareAndSwapInt32(p *int32, o, n int32) bool {
	vsched.AtomicPoint(unsafe.Pointer(p), true)
	v := atomic.CompareAndSwapInt32(p, o, n)
	vsched.AfterAtomic(unsafe.Pointer(p))
	return v
}
func LoadInt64(p *int64) int64 {
	vsched.AtomicPoint(unsafe.Pointer(p), false)
	v := atomic.LoadInt64(p)
	vsched.AfterAtomic(unsafe.Pointer(p))
	return v
}
func StoreInt64(p *int64, v int64) {
	vsched.AtomicPoint(unsafe.Pointer(p), true)
	atomic.StoreInt64(p, v)
}
func AddInt64(p *int64, d int64) int64 {
	vsched.AtomicPoint(unsafe.Pointer(p), true)
	return atomic.AddInt64(p, d)
}
func SwapInt64(p *int64, v int64) int64 {
	vsched.AtomicPoint(unsafe.Pointer(p), true)
	return atomic.SwapInt64(p, v)
}
func CompareAndSwapInt64(p *int64, o, n int64) bool {
	vsched.AtomicPoint(unsafe.Pointer(p), true)
	v := atomic.CompareAndSwapInt64(p, o, n)
	vsched.AfterAtomic(unsafe.Pointer(p))
	return v
}
func LoadUint32(p *uint32) uint32 {
	vsched.AtomicPoint(unsafe.Pointer(p), false)
	v := atomic.LoadUint32(p)
	vsched.AfterAtomic(unsafe.Pointer(p))
	return v
}
func StoreUint32(p *uint32, v uint32) {
	vsched.AtomicPoint(unsafe.Pointer(p), true)
	atomic.StoreUint32(p, v)
}
func AddUint32(p *uint32, d uint32) uint32 {
	vsched.AtomicPoint(unsafe.Pointer(p), true)
	return atomic.AddUint32(p, d)
}
func CompareAndSwapUint32(p *uint32, o, n uint32) bool {
	vsched.AtomicPoint(unsafe.Pointer(p), true)
	v := atomic.CompareAndSwapUint32(p, o, n)
	vsched.AfterAtomic(unsafe.Pointer(p))
	return v
}
func LoadUint64(p *uint64) uint64 {
	vsched.AtomicPoint(unsafe.Pointer(p), false)
	v := atomic.LoadUint64(p)
	vsched.AfterAtomic(unsafe.Pointer(p))
	return v
}
func StoreUint64(p *uint64, v uint64) {
	vsched.AtomicPoint(unsafe.Pointer(p), true)
	atomic.StoreUint64(p, v)
}
func AddUint64(p *uint64, d uint64) uint64 {
	vsched.AtomicPoint(unsafe.Pointer(p), true)
	return atomic.AddUint64(p, d)
}
func CompareAndSwapUint64(p *uint64, o, n uint64) bool {
	vsched.AtomicPoint(unsafe.Pointer(p), true)
	v := atomic.CompareAndSwapUint64(p, o, n)
	vsched.AfterAtomic(unsafe.Pointer(p))
	return v
}

// Value, Bool, Int32, Int64, Pointer: typed atomics (not used by go-res today; thin wrappers so that a
// changed tree that starts using them is still controlled).
type Value struct{ v atomic.Value }

func (x *Value) Load() any {
	vsched.AtomicPoint(unsafe.Pointer(x), false)
	return x.v.Load()
}
func (x *Value) Store(v any) {
	vsched.AtomicPoint(unsafe.Pointer(x), true)
	x.v.Store(v)
}

type Bool struct{ v atomic.Bool }

func (x *Bool) Load() bool {
	vsched.AtomicPoint(unsafe.Pointer(x), false)
	return x.v.Load()
}
func (x *Bool) Store(v bool) {
	vsched.AtomicPoint(unsafe.Pointer(x), true)
	x.v.Store(v)
}
func (x *Bool) Swap(v bool) bool {
	vsched.AtomicPoint(unsafe.Pointer(x), true)
	return x.v.Swap(v)
}
func (x *Bool) CompareAndSwap(o, n bool) bool {
	vsched.AtomicPoint(unsafe.Pointer(x), true)
	return x.v.CompareAndSwap(o, n)
}

type Int32 struct{ v atomic.Int32 }

func (x *Int32) Load() int32 {
	vsched.AtomicPoint(unsafe.Pointer(x), false)
	return x.v.Load()
}
func (x *Int32) Store(v int32) {
	vsched.AtomicPoint(unsafe.Pointer(x), true)
	x.v.Store(v)
}
func (x *Int32) Add(d int32) int32 {
	vsched.AtomicPoint(unsafe.Pointer(x), true)
	return x.v.Add(d)
}
func (x *Int32) CompareAndSwap(o, n int32) bool {
	vsched.AtomicPoint(unsafe.Pointer(x), true)
	return x.v.CompareAndSwap(o, n)
}

type Int64 struct{ v atomic.Int64 }

func (x *Int64) Load() int64 {
	vsched.AtomicPoint(unsafe.Pointer(x), false)
	return x.v.Load()
}
func (x *Int64) Store(v int64) {
	vsched.AtomicPoint(unsafe.Pointer(x), true)
	x.v.Store(v)
}
func (x *Int64) Add(d int64) int64 {
	vsched.AtomicPoint(unsafe.Pointer(x), true)
	return x.v.Add(d)
}
func (x *Int64) CompareAndSwap(o, n int64) bool {
	vsched.AtomicPoint(unsafe.Pointer(x), true)
	return x.v.CompareAndSwap(o, n)
}

type Uint32 struct{ v atomic.Uint32 }

func (x *Uint32) Load() uint32 {
	vsched.AtomicPoint(unsafe.Pointer(x), false)
	v := x.v.Load()
	vsched.AfterAtomic(unsafe.Pointer(x))
	return v
}
func (x *Uint32) Store(v uint32) {
	vsched.AtomicPoint(unsafe.Pointer(x), true)
	x.v.Store(v)
}
func (x *Uint32) Add(d uint32) uint32 {
	vsched.AtomicPoint(unsafe.Pointer(x), true)
	return x.v.Add(d)
}
func (x *Uint32) CompareAndSwap(o, n uint32) bool {
	vsched.AtomicPoint(unsafe.Pointer(x), true)
	v := x.v.CompareAndSwap(o, n)
	vsched.AfterAtomic(unsafe.Pointer(x))
	return v
}

type Uint64 struct{ v atomic.Uint64 }

func (x *Uint64) Load() uint64 {
	vsched.AtomicPoint(unsafe.Pointer(x), false)
	v := x.v.Load()
	vsched.AfterAtomic(unsafe.Pointer(x))
	return v
}
func (x *Uint64) Store(v uint64) {
	vsched.AtomicPoint(unsafe.Pointer(x), true)
	x.v.Store(v)
}
func (x *Uint64) Add(d uint64) uint64 {
	vsched.AtomicPoint(unsafe.Pointer(x), true)
	return x.v.Add(d)
}
func (x *Uint64) CompareAndSwap(o, n uint64) bool {
	vsched.AtomicPoint(unsafe.Pointer(x), true)
	v := x.v.CompareAndSwap(o, n)
	vsched.AfterAtomic(unsafe.Pointer(x))
	return v
}

// Pointer is atomic.Pointer[T].
type Pointer[T any] struct{ v atomic.Pointer[T] }

func (x *Pointer[T]) Load() *T {
	vsched.AtomicPoint(unsafe.Pointer(x), false)
	v := x.v.Load()
	vsched.AfterAtomic(unsafe.Pointer(x))
	return v
}
func (x *Pointer[T]) Store(v *T) {
	vsched.AtomicPoint(unsafe.Pointer(x), true)
	x.v.Store(v)
}
func (x *Pointer[T]) Swap(v *T) *T {
	vsched.AtomicPoint(unsafe.Pointer(x), true)
	return x.v.Swap(v)
}
func (x *Pointer[T]) CompareAndSwap(o, n *T) bool {
	vsched.AtomicPoint(unsafe.Pointer(x), true)
	v := x.v.CompareAndSwap(o, n)
	vsched.AfterAtomic(unsafe.Pointer(x))
	return v
}

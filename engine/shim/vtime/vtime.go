// Package vtime replaces "time" in timerqueue and resprot: Now, Sleep, NewTimer, After run on the
// scheduler's virtual clock; types and constants are the real ones.
package vtime

import (
	"time"

	"verif/vsched"
)

type (
	Time     = time.Time
	Duration = time.Duration
	Month    = time.Month
	Weekday  = time.Weekday
	Location = time.Location
)

const (
	Nanosecond  = time.Nanosecond
	Microsecond = time.Microsecond
	Millisecond = time.Millisecond
	Second      = time.Second
	Minute      = time.Minute
	Hour        = time.Hour
	RFC3339     = time.RFC3339
	RFC3339Nano = time.RFC3339Nano
)

var UTC = time.UTC

func Now() Time                                { return vsched.Now() }
func Since(t Time) Duration                    { return Now().Sub(t) }
func Until(t Time) Duration                    { return t.Sub(Now()) }
func Sleep(d Duration)                         { vsched.Sleep(d) }
func Unix(s, ns int64) Time                    { return time.Unix(s, ns) }
func ParseDuration(s string) (Duration, error) { return time.ParseDuration(s) }

// Timer is a virtual-clock timer.
type Timer struct {
	C    chan Time
	real *time.Timer
}

func NewTimer(d Duration) *Timer {
	if !vsched.Active() {
		rt := time.NewTimer(d)
		c := make(chan Time, 1)
		go func() { c <- <-rt.C }()
		return &Timer{C: c, real: rt}
	}
	c := make(chan Time, 1)
	vsched.TimerNew(c, d)
	return &Timer{C: c}
}

func (t *Timer) Stop() bool {
	if t.real != nil {
		return t.real.Stop()
	}
	return vsched.TimerStop(t.C)
}

func (t *Timer) Reset(d Duration) bool {
	if t.real != nil {
		return t.real.Reset(d)
	}
	// pre-Go-1.23 semantics: Reset does not drain an expiry already delivered to the channel
	was := vsched.TimerStop(t.C)
	vsched.TimerNew(t.C, d)
	return was
}

func After(d Duration) <-chan Time { return NewTimer(d).C }

// AfterFunc runs f on its own (controlled) thread once d has elapsed on the virtual clock.
func AfterFunc(d Duration, f func()) *Timer {
	if !vsched.Active() {
		return &Timer{real: time.AfterFunc(d, f)}
	}
	t := NewTimer(d)
	vsched.Go("afterfunc", func() {
		vsched.Recv(t.C) // a stopped timer leaves this thread parked for the rest of the execution
		f()
	})
	return t
}

func Date(year int, month Month, day, hour, min, sec, nsec int, loc *Location) Time {
	return time.Date(year, month, day, hour, min, sec, nsec, loc)
}
func Parse(layout, value string) (Time, error) { return time.Parse(layout, value) }

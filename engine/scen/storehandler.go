package scen

import (
	"fmt"
	"strings"

	res "github.com/jirenius/go-res"
	"github.com/jirenius/go-res/logger"
	"github.com/jirenius/go-res/store"
	"github.com/jirenius/go-res/store/badgerstore"
	"github.com/jirenius/go-res/store/mockstore"

	"verif/ref"
	"verif/vsched"
)

// SH1: a store-backed resource served by store.Handler while foreign goroutines mutate the store (the change
// handler publishes events from the writer's goroutine) and a client fetches the resource.
//
// Oracle (C10 under interleavings, C04, C16 in the race build): a client that takes the get reply at its
// position in the connection's publish order and applies every later event of that resource holds what a
// fresh get returns at the end; one reply per request; no panic, no deadlock.
func init() {
	for _, kind := range []string{"mock", "badger-prefix", "2badger-prefix"} {
		for _, typ := range []string{"model", "collection"} {
			kind, typ := kind, typ
			// SH2: two foreign writers, one update each on different ids, no fetching client: a small program whose
			// two change handlers overlap within one preemption (race build: state shared between them)
			name, two := "SH1-"+kind+"-"+typ, false
			if kind[0] == '2' {
				kind = kind[1:]
				name, two = "SH2-"+kind+"-"+typ, true
			}
			reg(&Scenario{Name: name, Make: func(cfg Cfg) (func(), *Spec) {
				sp := &Spec{Closes: -1, StoreHandler: true}
				val := func(n int) interface{} {
					if typ == "model" {
						return map[string]interface{}{"n": float64(n)}
					}
					c := []interface{}{}
					for i := 1; i <= n; i++ {
						c = append(c, float64(i))
					}
					return c
				}
				return func() {
					var st store.Store
					switch kind {
					case "mock":
						st = mockstore.NewStore()
					default:
						ClearDB()
						bs := badgerstore.NewStore(DB).SetPrefix("ba")
						if typ == "collection" {
							bs.SetType([]interface{}{})
						}
						st = bs
					}
					w := NewWorld(cfg)
					w.S.SetLogger(logger.NewMemLogger())
					t := res.Model
					if typ == "collection" {
						t = res.Collection
					}
					w.S.Handle("m.$id", t, store.Handler{Store: st, Transformer: store.IDTransformer("id", nil)})
					sdone := make(chan struct{}, 1)
					w.StartServe(sdone)
					mut := func(id string, n int) {
						wt := st.Write(id)
						var err error
						if wt.Exists() {
							err = wt.Update(val(n))
						} else {
							err = wt.Create(val(n))
						}
						wt.Close()
						vsched.Note(Mon, fmt.Sprintf("mutated %s %d err=%v", id, n, err))
					}
					mut("1", 1)
					mut("2", 1)
					vsched.AwaitQuiescence()
					done := make(chan struct{}, 4)
					if two {
						spawn("A", done, func() { mut("1", 3) })
						spawn("C", done, func() { mut("2", 3) })
						join(done, 2)
						vsched.AwaitQuiescence()
						vsched.Emit(Mon, "final")
						w.Req("get.t.m.1", "R9")
						vsched.AwaitQuiescence()
						return
					}
					spawn("A", done, func() { mut("1", 2); mut("1", 3) })
					spawn("B", done, func() { w.Req("get.t.m.1", "R1") })
					spawn("C", done, func() { mut("2", 3) }) // an update of another id: its change handler runs beside A's
					join(done, 3)
					vsched.AwaitQuiescence()
					vsched.Emit(Mon, "final")
					w.Req("get.t.m.1", "R9")
					vsched.AwaitQuiescence()
				}, sp
			}})
		}
	}
}

// JudgeStoreHandler is the SH1 oracle.
func JudgeStoreHandler(r *vsched.Result) []string {
	var out []string
	add := func(prop, format string, a ...any) { out = append(out, prop+": "+fmt.Sprintf(format, a...)) }
	var cache, fresh *ref.Cache
	replies := map[string]int{}
	sentR1 := false
	var applied []string
	for _, e := range r.Events {
		f := strings.SplitN(e.Text, " ", 3)
		if strings.HasPrefix(e.Text, "inject get.t.m.1 reply=R1") {
			sentR1 = true
		}
		if f[0] != "pub" || len(f) < 3 {
			continue
		}
		subj, data := f[1], f[2]
		switch {
		case subj == "R1":
			replies[subj]++
			c, err := ref.FromGet(data)
			if err != nil {
				add("C10", "get R1 failed: %v (%s)", err, data)
				return out
			}
			cache = c
		case subj == "R9":
			replies[subj]++
			c, err := ref.FromGet(data)
			if err != nil {
				add("C10", "final get failed: %v (%s)", err, data)
				return out
			}
			fresh = c
		case strings.HasPrefix(subj, "event.t.m.1."):
			if msg := ref.ValidateEvent(subj, data); msg != "" {
				add("C07", "event %s %s: %s", subj, data, msg)
			}
			if cache == nil {
				continue // published before the client's get was answered
			}
			name := subj[len("event.t.m.1."):]
			applied = append(applied, name+" "+data)
			if !cache.Found {
				continue
			}
			if err := cache.Apply(name, data); err != nil {
				add("C10", "a client holding %s cannot apply event %s %s: %v", cache, name, data, err)
				return out
			}
		}
	}
	for _, p := range r.Panics {
		add("C16", "thread panicked: %s", firstLines(p, 6))
	}
	if r.Deadlock || r.Horizon {
		add("C16", "execution did not finish: %s", blockedString(r))
		return out
	}
	for _, id := range []string{"R1", "R9"} {
		if id == "R1" && !sentR1 {
			continue
		}
		if replies[id] != 1 {
			add("C04", "request %s got %d responses", id, replies[id])
		}
	}
	if cache != nil && fresh != nil && cache.Found && !cache.Equal(fresh) {
		add("C10", "the client that fetched the resource during the mutations holds %s after applying %v, a fresh get returns %s", cache, applied, fresh)
	}
	return out
}

package scen

import (
	"encoding/json"
	"errors"
	"fmt"
	"net/url"
	"sort"
	"strings"

	"github.com/anishathalye/porcupine"
	"github.com/dgraph-io/badger"
	"github.com/jirenius/go-res/store"
	"github.com/jirenius/go-res/store/badgerstore"
	"github.com/jirenius/go-res/store/mockstore"

	"verif/vsched"
)

// DB is the process-wide BadgerDB used by store scenarios (set by the explorer binary).
var DB *badger.DB

// ClearDB deletes every key.
func ClearDB() {
	var keys [][]byte
	DB.View(func(txn *badger.Txn) error {
		opts := badger.DefaultIteratorOptions
		opts.PrefetchValues = false
		it := txn.NewIterator(opts)
		defer it.Close()
		for it.Rewind(); it.Valid(); it.Next() {
			keys = append(keys, it.Item().KeyCopy(nil))
		}
		return nil
	})
	if len(keys) > 0 {
		DB.Update(func(txn *badger.Txn) error {
			for _, k := range keys {
				txn.Delete(k)
			}
			return nil
		})
	}
}

func js(v interface{}) string {
	if v == nil {
		return "nil"
	}
	b, _ := json.Marshal(v)
	return string(b)
}

func errClass(err error) string {
	switch {
	case err == nil:
		return "ok"
	case errors.Is(err, store.ErrNotFound):
		return "notfound"
	case errors.Is(err, store.ErrDuplicate):
		return "duplicate"
	case errors.Is(err, badger.ErrConflict):
		return "conflict" // a transaction conflict with a writer outside this store's key lock: the call has no effect
	}
	return "error"
}

type stTxn struct {
	write bool
	id    string
	ops   []string // create:N update:N delete value exists
}

// stThread runs the transactions of one thread, logging call/return of every operation.
func stThread(st store.Store, name string, txns []stTxn) {
	for ti, t := range txns {
		tag := fmt.Sprintf("%s.%d", name, ti)
		var rt store.ReadTxn
		var wt store.WriteTxn
		vsched.Emit(Mon, fmt.Sprintf("txn-request %s id=%s write=%v", tag, t.id, t.write))
		if t.write {
			wt = st.Write(t.id)
			rt = wt
		} else {
			rt = st.Read(t.id)
		}
		vsched.Emit(Mon, fmt.Sprintf("txn-open %s id=%s write=%v", tag, t.id, t.write))
		// state the caller touches only inside transactions on this id needs no further synchronisation (C16):
		// a plain word per id, written in write transactions and read in read transactions
		if p := stScratchOf(st)[t.id]; p != nil {
			if t.write {
				*p++
			} else {
				_ = *p
			}
		}
		for oi, op := range t.ops {
			otag := fmt.Sprintf("%s.%d", tag, oi)
			vsched.Emit(Mon, fmt.Sprintf("call %s id=%s op=%s", otag, t.id, op))
			res := ""
			f := strings.Split(op, ":")
			switch f[0] {
			case "create":
				res = errClass(wt.Create(map[string]interface{}{"n": f[1]}))
			case "update":
				res = errClass(wt.Update(map[string]interface{}{"n": f[1]}))
			case "delete":
				res = errClass(wt.Delete())
			case "value":
				v, err := rt.Value()
				res = errClass(err)
				if err == nil {
					res = "ok:" + js(v)
				}
			case "exists":
				res = fmt.Sprint(rt.Exists())
			}
			vsched.Emit(Mon, fmt.Sprintf("return %s id=%s op=%s res=%s", otag, t.id, op, res))
		}
		vsched.Emit(Mon, fmt.Sprintf("txn-close %s id=%s write=%v", tag, t.id, t.write))
		rt.Close()
	}
}

// one scratch word per (store handle, id): the key lock that orders the transactions belongs to the handle
// (ST4 runs two handles on one database; their transactions are not mutually exclusive by design)
var stScratch = map[store.Store]map[string]*int{}

// stRegister is called by the main thread when a store is created (before the contending threads start).
func stRegister(st store.Store) store.Store {
	if len(stScratch) > 64 {
		stScratch = map[store.Store]map[string]*int{} // stores of earlier executions
	}
	stScratch[st] = map[string]*int{"a": new(int), "b": new(int)}
	return st
}

func stScratchOf(st store.Store) map[string]*int { return stScratch[st] }

func newStore(kind string) store.Store {
	cb := func(id string, before, after interface{}) {
		vsched.Emit(Mon, fmt.Sprintf("onchange id=%s before=%s after=%s", id, js(before), js(after)))
	}
	switch kind {
	case "mock":
		s := mockstore.NewStore()
		s.OnChange(cb)
		return stRegister(s)
	case "badger", "badger-prefix", "badger-split":
		ClearDB()
		if kind == "badger-split" {
			// a scheduling point between every transaction closure's return and its commit (rewriter rule R8b)
			vsched.SplitCommit(true)
		}
		s := badgerstore.NewStore(DB)
		if kind == "badger-prefix" {
			s.SetPrefix("ba")
		}
		s.OnChange(cb)
		return stRegister(s)
	}
	panic("unknown store kind " + kind)
}

func init() {
	programs := map[string][][]stTxn{
		// two writers and a reader on one id
		"ST1": {
			{{true, "a", []string{"create:1", "update:3"}}},
			{{true, "a", []string{"value", "delete"}}},
			{{false, "a", []string{"value", "exists"}}},
		},
		// ids a, a, b with two transactions per thread
		"ST2": {
			{{true, "a", []string{"create:1"}}, {true, "b", []string{"create:2"}}},
			{{true, "a", []string{"create:4", "value"}}, {false, "b", []string{"value"}}},
		},
		// three writers of one id
		"ST3": {
			{{true, "a", []string{"create:1"}}},
			{{true, "a", []string{"update:2"}}},
			{{true, "a", []string{"delete"}}},
		},
		// two writers on different ids (their transactions overlap: the key lock is per id) and a reader
		"ST6": {
			{{true, "a", []string{"create:1"}}, {true, "a", []string{"update:3"}}},
			{{true, "b", []string{"create:2"}}, {true, "b", []string{"update:4", "value"}}},
			{{false, "a", []string{"value"}}},
		},
	}
	for pname, prog := range programs {
		for _, kind := range []string{"mock", "badger", "badger-prefix", "badger-split"} {
			pname, prog, kind := pname, prog, kind
			reg(&Scenario{Name: pname + "-" + kind, Make: func(cfg Cfg) (func(), *Spec) {
				sp := &Spec{Closes: -1, Store: true}
				return func() {
					st := newStore(kind)
					done := make(chan struct{}, 8)
					for i, txns := range prog {
						i, txns := i, txns
						spawn(fmt.Sprintf("T%d", i), done, func() { stThread(st, fmt.Sprintf("T%d", i), txns) })
					}
					join(done, len(prog))
					// final content through fresh read transactions
					for _, id := range []string{"a", "b"} {
						rt := st.Read(id)
						v, err := rt.Value()
						rt.Close()
						r := errClass(err)
						if err == nil {
							r = "ok:" + js(v)
						}
						vsched.Emit(Mon, fmt.Sprintf("final id=%s res=%s", id, r))
					}
				}, sp
			}})
		}
	}
}

type stOpIn struct {
	id, op string
}

// kvModel: per-id register with the store's error results.
var kvModel = porcupine.Model{
	Partition: func(history []porcupine.Operation) [][]porcupine.Operation {
		m := map[string][]porcupine.Operation{}
		var ids []string
		for _, o := range history {
			id := o.Input.(stOpIn).id
			if _, ok := m[id]; !ok {
				ids = append(ids, id)
			}
			m[id] = append(m[id], o)
		}
		sort.Strings(ids)
		var out [][]porcupine.Operation
		for _, id := range ids {
			out = append(out, m[id])
		}
		return out
	},
	Init: func() interface{} { return "" },
	Step: func(state, input, output interface{}) (bool, interface{}) {
		cur := state.(string) // "" = missing, else the n value
		in := input.(stOpIn)
		out := output.(string)
		f := strings.Split(in.op, ":")
		if out == "conflict" && (f[0] == "create" || f[0] == "update" || f[0] == "delete") {
			return true, cur
		}
		switch f[0] {
		case "create":
			if cur != "" {
				return out == "duplicate", cur
			}
			return out == "ok", f[1]
		case "update":
			if cur == "" {
				return out == "notfound", cur
			}
			return out == "ok", f[1]
		case "delete":
			if cur == "" {
				return out == "notfound", cur
			}
			return out == "ok", ""
		case "value":
			if cur == "" {
				return out == "notfound", cur
			}
			return out == `ok:{"n":"`+cur+`"}`, cur
		case "exists":
			return out == fmt.Sprint(cur != ""), cur
		}
		return false, cur
	},
	Equal: func(a, b interface{}) bool { return a == b },
}

// JudgeStore is the C11 oracle for the contention scenarios.
func JudgeStore(r *vsched.Result) []string {
	var out []string
	add := func(format string, a ...any) { out = append(out, "C11: "+fmt.Sprintf(format, a...)) }
	if r.Deadlock || r.Horizon {
		add("execution did not finish (deadlock=%v): %s", r.Deadlock, blockedString(r))
		return out
	}
	for _, p := range r.Panics {
		add("thread panicked: %s", firstLines(p, 4))
	}
	type openTxn struct {
		tag   string
		write bool
	}
	twoHandles := false
	for _, e := range r.Events {
		if strings.HasPrefix(e.Text, "beforechange ") {
			twoHandles = true // scenario ST4: the two threads use different Store handles, which do not exclude each other
		}
	}
	open := map[string][]openTxn{}
	calls := map[string]porcupine.Operation{}
	var ops []porcupine.Operation
	lastAfter := map[string]string{}
	pendingMut := map[int]string{} // thread -> op tag of a mutation in progress
	cbCount := map[string]int{}
	final := map[string]string{}
	kv := func(f []string, k string) string {
		for _, x := range f {
			if strings.HasPrefix(x, k+"=") {
				return x[len(k)+1:]
			}
		}
		return ""
	}
	for _, e := range r.Events {
		f := strings.Fields(e.Text)
		switch f[0] {
		case "txn-open":
			id, w := kv(f, "id"), kv(f, "write") == "true"
			for _, o := range open[id] {
				if (o.write || w) && o.tag[:2] == f[1][:2] && false {
					_ = o
				}
				if (o.write || w) && !twoHandles {
					add("transaction %s on id %q was granted while transaction %s (write=%v) on the same id is open", f[1], id, o.tag, o.write)
				}
			}
			open[id] = append(open[id], openTxn{f[1], w})
		case "txn-close":
			id := kv(f, "id")
			l := open[id]
			for i, o := range l {
				if o.tag == f[1] {
					open[id] = append(append([]openTxn{}, l[:i]...), l[i+1:]...)
				}
			}
		case "call":
			calls[f[1]] = porcupine.Operation{ClientId: e.Thread, Input: stOpIn{kv(f, "id"), kv(f, "op")}, Call: int64(e.Step)}
			op := kv(f, "op")
			if strings.HasPrefix(op, "create") || strings.HasPrefix(op, "update") || op == "delete" {
				pendingMut[e.Thread] = f[1]
			}
		case "return":
			o := calls[f[1]]
			o.Output = kv(f, "res")
			o.Return = int64(e.Step)
			ops = append(ops, o)
			if tag, ok := pendingMut[e.Thread]; ok && tag == f[1] {
				want := 0
				if o.Output == "ok" {
					want = 1
				}
				if cbCount[tag] != want {
					add("operation %s (%s) returned %s and ran %d change callbacks, want %d", f[1], kv(f, "op"), o.Output, cbCount[tag], want)
				}
				delete(pendingMut, e.Thread)
			}
		case "onchange":
			id := kv(f, "id")
			tag, ok := pendingMut[e.Thread]
			if !ok {
				add("change callback for %q ran on thread %d, which has no mutation in progress (not the caller's goroutine)", id, e.Thread)
			} else {
				cbCount[tag]++
			}
			before, after := kv(f, "before"), kv(f, "after")
			prev, seen := lastAfter[id]
			if !seen {
				prev = "nil"
			}
			if before != prev && !twoHandles {
				// (with two Store handles nothing orders the callbacks of different handles like their commits)
				add("change callback for %q has before=%s, but the previous change of that id left %s", id, before, prev)
			}
			lastAfter[id] = after
		case "final":
			final[kv(f, "id")] = kv(f, "res")
		}
	}
	if res := porcupine.CheckOperations(kvModel, ops); !res {
		var hs []string
		for _, o := range ops {
			hs = append(hs, fmt.Sprintf("[%d,%d] T%d %v -> %v", o.Call, o.Return, o.ClientId, o.Input, o.Output))
		}
		add("history is not linearizable as a per-id map: %s", strings.Join(hs, " ; "))
	}
	for id, res := range final {
		want := "notfound"
		if a, ok := lastAfter[id]; ok && a != "nil" {
			want = "ok:" + a
		}
		if res != want && !twoHandles {
			add("final value of %q is %s, the change callbacks say %s", id, res, want)
		}
	}
	return out
}

func init() {
	// ST4: two Store handles on one database (each has its own key lock) update the same id; a BeforeChange
	// listener yields inside the database transaction, so the two transactions can conflict. A call that fails
	// with a conflict must have no effect and run no change callback.
	reg(&Scenario{Name: "ST4-badger", Make: func(cfg Cfg) (func(), *Spec) {
		sp := &Spec{Closes: -1, Store: true}
		return func() {
			ClearDB()
			mk := func() *badgerstore.Store {
				s := badgerstore.NewStore(DB).SetPrefix("ba")
				s.BeforeChange(func(id string, before, after interface{}) error {
					vsched.Emit(Mon, "beforechange id="+id)
					return nil
				})
				s.OnChange(func(id string, before, after interface{}) {
					vsched.Emit(Mon, fmt.Sprintf("onchange id=%s before=%s after=%s", id, js(before), js(after)))
				})
				return s
			}
			a, b := mk(), mk()
			stRegister(a)
			stRegister(b)
			stThread(a, "M", []stTxn{{true, "a", []string{"create:0"}}})
			done := make(chan struct{}, 4)
			spawn("T0", done, func() { stThread(a, "T0", []stTxn{{true, "a", []string{"update:1"}}}) })
			spawn("T1", done, func() { stThread(b, "T1", []stTxn{{true, "a", []string{"update:2"}}}) })
			join(done, 2)
			rt := a.Read("a")
			v, err := rt.Value()
			rt.Close()
			r := errClass(err)
			if err == nil {
				r = "ok:" + js(v)
			}
			vsched.Emit(Mon, fmt.Sprintf("final id=a res=%s", r))
		}, sp
	}})

	// IX1: queries racing with index maintenance up to the Flush (C13): M mutates, F (ordered after M's calls
	// returned) flushes and queries; the result must reflect both mutations.
	reg(&Scenario{Name: "IX1", Make: func(cfg Cfg) (func(), *Spec) {
		sp := &Spec{Closes: -1, Index: true}
		return func() {
			ClearDB()
			st := badgerstore.NewStore(DB)
			qs := badgerstore.NewQueryStore(st, func(qs *badgerstore.QueryStore, q url.Values) (*badgerstore.IndexQuery, error) {
				return &badgerstore.IndexQuery{Index: qs.Index("i"), Limit: -1}, nil
			})
			qs.AddIndex(badgerstore.Index{Name: "i", Key: func(v interface{}) []byte {
				if s, ok := v.(map[string]interface{})["k"].(string); ok {
					return []byte(s)
				}
				return nil
			}})
			ncb := 0
			qs.OnQueryChange(func(qc store.QueryChange) {
				ncb++
				vsched.Emit(Mon, fmt.Sprintf("querychange %s", qc.ID()))
			})
			mdone := make(chan struct{}, 1)
			done := make(chan struct{}, 2)
			spawn("M", done, func() {
				for i, id := range []string{"a", "b"} {
					wt := st.Write(id)
					wt.Create(map[string]interface{}{"k": fmt.Sprintf("k%d", i)})
					wt.Close()
				}
				wt := st.Write("a")
				wt.Update(map[string]interface{}{"k": "k9"})
				wt.Close()
				vsched.Send(mdone, struct{}{})
			})
			spawn("F", done, func() {
				vsched.Recv(mdone)
				qs.Flush()
				res, err := qs.Query(nil)
				vsched.Emit(Mon, fmt.Sprintf("afterflush %v %v callbacks=%d", res, err, ncb))
			})
			join(done, 2)
		}, sp
	}})
}

func init() {
	// IX2: two Flush calls: F1 flushes while M is still writing, F2 flushes after M's last call returned and
	// queries; F2's result must reflect everything (a Flush may not rely on what an earlier Flush saw).
	reg(&Scenario{Name: "IX2", Make: func(cfg Cfg) (func(), *Spec) {
		sp := &Spec{Closes: -1, Index: true}
		return func() {
			ClearDB()
			st := badgerstore.NewStore(DB)
			qs := badgerstore.NewQueryStore(st, func(qs *badgerstore.QueryStore, q url.Values) (*badgerstore.IndexQuery, error) {
				return &badgerstore.IndexQuery{Index: qs.Index("i"), Limit: -1}, nil
			})
			qs.AddIndex(badgerstore.Index{Name: "i", Key: func(v interface{}) []byte {
				if s, ok := v.(map[string]interface{})["k"].(string); ok {
					return []byte(s)
				}
				return nil
			}})
			ncb := 0
			qs.OnQueryChange(func(qc store.QueryChange) {
				ncb++
				vsched.Emit(Mon, fmt.Sprintf("querychange %s", qc.ID()))
			})
			m1 := make(chan struct{}, 1)
			m2 := make(chan struct{}, 1)
			done := make(chan struct{}, 3)
			spawn("M", done, func() {
				wt := st.Write("a")
				wt.Create(map[string]interface{}{"k": "k0"})
				wt.Close()
				vsched.Send(m1, struct{}{})
				wt = st.Write("b")
				wt.Create(map[string]interface{}{"k": "k1"})
				wt.Close()
				vsched.Send(m2, struct{}{})
			})
			spawn("F1", done, func() {
				vsched.Recv(m1)
				qs.Flush()
			})
			spawn("F2", done, func() {
				vsched.Recv(m2)
				qs.Flush()
				res, err := qs.Query(nil)
				vsched.Emit(Mon, fmt.Sprintf("afterflush2 %v %v callbacks=%d", res, err, ncb))
			})
			join(done, 3)
		}, sp
	}})

	// ST5: a transaction handle closed twice (the second Close is an error) while other goroutines open write
	// transactions on the same id: the stale Close must not release a lock it does not hold.
	for _, kind := range []string{"mock", "badger-prefix"} {
		kind := kind
		reg(&Scenario{Name: "ST5-" + kind, Make: func(cfg Cfg) (func(), *Spec) {
			sp := &Spec{Closes: -1, Store: true}
			return func() {
				st := newStore(kind)
				stThread(st, "M", []stTxn{{true, "a", []string{"create:0"}}})
				done := make(chan struct{}, 4)
				spawn("T0", done, func() {
					vsched.Emit(Mon, "txn-request T0.0 id=a write=true")
					wt := st.Write("a")
					vsched.Emit(Mon, "txn-open T0.0 id=a write=true")
					vsched.Emit(Mon, "txn-close T0.0 id=a write=true")
					wt.Close()
					vsched.Yield()
					err := wt.Close() // a second Close of the same handle
					vsched.Emit(Mon, fmt.Sprintf("second-close err=%v", err != nil))
				})
				spawn("T1", done, func() { stThread(st, "T1", []stTxn{{true, "a", []string{"update:1", "value"}}}) })
				spawn("T2", done, func() { stThread(st, "T2", []stTxn{{true, "a", []string{"update:2", "value"}}}) })
				join(done, 3)
				rt := st.Read("a")
				v, err := rt.Value()
				rt.Close()
				r := errClass(err)
				if err == nil {
					r = "ok:" + js(v)
				}
				vsched.Emit(Mon, fmt.Sprintf("final id=a res=%s", r))
			}, sp
		}})
	}
}

// JudgeIndex is the C13 oracle of IX1.
func JudgeIndex(r *vsched.Result) []string {
	var out []string
	if r.Deadlock || r.Horizon {
		return []string{"C13: execution did not finish: " + blockedString(r)}
	}
	for _, p := range r.Panics {
		out = append(out, "C13: thread panicked: "+firstLines(p, 4))
	}
	for _, e := range r.Events {
		if strings.HasPrefix(e.Text, "afterflush2 ") && e.Text != "afterflush2 [a b] <nil> callbacks=2" {
			out = append(out, "C13: once the second Flush has returned the query must reflect every mutation made before it and all change callbacks must have run: got \""+e.Text+"\", want \"afterflush2 [a b] <nil> callbacks=2\"")
		}
		if strings.HasPrefix(e.Text, "afterflush ") && e.Text != "afterflush [b a] <nil> callbacks=3" {
			out = append(out, "C13: once Flush has returned the query must reflect every mutation made before it and all change callbacks must have run: got \""+e.Text+"\", want \"afterflush [b a] <nil> callbacks=3\"")
		}
	}
	return out
}

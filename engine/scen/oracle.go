package scen

import (
	"fmt"
	"strings"

	"verif/vsched"
)

// Spec tells the oracles what the scenario did.
type Spec struct {
	Legacy       bool        // LM1: judged by JudgeLegacy (C20)
	Shutdown     bool        // the scenario calls Shutdown (C02 exactly-once relaxed, C03 oracle on)
	Order        [][2]string // callback ids (a,b) whose submissions are ordered by happens-before within one group
	MustRun      []string    // callback ids that must run exactly once (no Shutdown scenarios, or submitted & accepted before Shutdown was called)
	NoHandler    []string    // With ids that must return an error and never run
	Closes       int         // expected Conn.Close calls (-1: do not check)
	Query        *QSpec      // query-event scenarios (C15 oracle)
	Store        bool        // store contention scenarios (C11 oracle)
	Index        bool        // index maintenance scenario (C13 oracle)
	Epochs       int
	StoreHandler bool // SH1 oracle
	// Conn2Want: subjects that must have been published on the second epoch's (fresh) connection; the scenario
	// reports them in a "conn2" observation
	Conn2Want []string
	// WantPre: reply subject -> the exact pre-response its handler sends (C07: a pre-response is timeout:"<ms>")
	WantPre map[string]string
	// Late: callback ids / request replies that the scenario submits while the service is started (after a
	// restart) and whose completion it awaits (AwaitQuiescence) before it calls Shutdown again: they must run
	// (be answered) exactly once even though the scenario also shuts the service down.
	Late      []string
	LateReply []string
}

type cbInfo struct {
	enters, exits int
	enterStep     int
	group         string
}

// Judge runs the C01/C02/C03 oracles over one execution.
func Judge(sp *Spec, r *vsched.Result) []string {
	var out []string
	add := func(prop, format string, a ...any) { out = append(out, prop+": "+fmt.Sprintf(format, a...)) }
	occ := map[string]string{} // group -> id occupying
	cbs := map[string]*cbInfo{}
	open := map[string]string{} // id -> group for entered-not-exited
	shutdownRet := -1
	closes := 0
	retErr := map[string]bool{}
	retOK := map[string]bool{}
	injected := map[string]bool{}
	replies := map[string]int{}
	for _, e := range r.Events {
		if e.Monitor != Mon {
			continue
		}
		f := strings.Fields(e.Text)
		if len(f) == 0 {
			continue
		}
		switch f[0] {
		case "enter":
			id := f[1]
			g := strings.TrimPrefix(f[2], "g=")
			want := strings.TrimPrefix(f[3], "want=")
			if g != want {
				add("C01", "callback %s reports group %q, reference group is %q", id, g, want)
			}
			ci := cbs[id]
			if ci == nil {
				ci = &cbInfo{}
				cbs[id] = ci
			}
			ci.enters++
			ci.enterStep = e.Step
			ci.group = g
			if g != "" {
				if other, busy := occ[g]; busy {
					add("C01", "callbacks %s and %s of group %q overlap", other, id, g)
					if isQueryCB(id) || isQueryCB(other) {
						add("C15", "query callback not serialized in the resource's group: %s and %s of group %q overlap", other, id, g)
					}
				}
				occ[g] = id
			}
			open[id] = g
			if shutdownRet >= 0 {
				add("C03", "callback %s started after Shutdown returned", id)
			}
		case "exit":
			id := f[1]
			if ci := cbs[id]; ci != nil {
				ci.exits++
			}
			if g, ok := open[id]; ok {
				if g != "" && occ[g] == id {
					delete(occ, g)
				}
				delete(open, id)
			}
		case "inject":
			for _, x := range f[1:] {
				if strings.HasPrefix(x, "reply=") && len(x) > 6 {
					injected[x[6:]] = true
				}
			}
		case "pub":
			if want, ok := sp.WantPre[f[1]]; ok && len(f) > 2 && strings.HasPrefix(f[2], "timeout:") {
				if got := strings.Join(f[2:], " "); got != want {
					add("C07", "pre-response on %s is %q, its handler called Timeout for %q", f[1], got, want)
				}
			}
			if injected[f[1]] && !(len(f) > 2 && strings.HasPrefix(f[2], "timeout:")) {
				replies[f[1]]++
				if replies[f[1]] > 1 {
					add("C04", "request %s got %d responses", f[1], replies[f[1]])
				}
			}
		case "shutdown.ret":
			if len(f) > 1 && f[1] == "err=<nil>" {
				shutdownRet = e.Step
				if len(open) > 0 {
					add("C03", "Shutdown returned while callbacks %v were executing", keys(open))
				}
			}
		case "close":
			closes++
		case "epoch2":
			shutdownRet = -1
			if closes != 1 {
				add("C03", "Conn.Close called %d times in the first epoch, want 1", closes)
			}
			closes = 0
		case "ret":
			if f[2] == "err" {
				retErr[f[1]] = true
			} else {
				retOK[f[1]] = true
			}
		case "panic":
			add("C03", "API call panicked: %s", strings.Join(f[1:], " "))
		case "conn2":
			for _, want := range sp.Conn2Want {
				found := false
				for _, subj := range f[1:] {
					if subj == want {
						found = true
					}
				}
				if !found {
					add("C03", "the restarted service did not publish %s on its new connection (published there: %v)", want, f[1:])
					add("C08", "a message of a callback of the restarted service (%s) did not appear on the served connection (published there: %v)", want, f[1:])
				}
			}
		}
	}
	for id, ci := range cbs {
		if ci.enters > 1 {
			add("C02", "callback %s ran %d times", id, ci.enters)
		}
	}
	for _, id := range sp.NoHandler {
		if !retErr[id] {
			add("C02", "With %s on an unmatched resource did not return an error", id)
		}
		if cbs[id] != nil {
			add("C02", "callback %s ran although no handler matches", id)
		}
	}
	for _, p := range sp.Order {
		a, b := cbs[p[0]], cbs[p[1]]
		if a != nil && b != nil && a.enters > 0 && b.enters > 0 && a.enterStep > b.enterStep {
			add("C02", "callback %s (submitted first) started after %s in group %q", p[0], p[1], a.group)
			add("C08", "the messages of group %q are not in submission order: callback %s (submitted first) started after %s", a.group, p[0], p[1])
		}
		if !sp.Shutdown && b != nil && b.enters > 0 && (a == nil || a.enters == 0) {
			add("C02", "callback %s ran but earlier submission %s never did", p[1], p[0])
		}
	}
	complete := !r.Deadlock && !r.Horizon
	if complete && !sp.Shutdown {
		for id := range injected {
			if replies[id] != 1 {
				add("C04", "request %s got %d responses by quiescence (want exactly one)", id, replies[id])
			}
		}
		for _, id := range sp.MustRun {
			ci := cbs[id]
			if ci == nil || ci.enters != 1 || ci.exits != 1 {
				n := 0
				if ci != nil {
					n = ci.enters
				}
				add("C02", "accepted callback %s ran %d times by quiescence (want exactly once)", id, n)
			}
		}
	}
	if complete {
		for _, id := range sp.Late {
			ci := cbs[id]
			if retOK[id] && (ci == nil || ci.enters != 1 || ci.exits != 1) {
				n := 0
				if ci != nil {
					n = ci.enters
				}
				add("C02", "callback %s, accepted by the restarted service, ran %d times by quiescence (want exactly once)", id, n)
				add("C03", "after the restart the call submitting %s was neither refused nor took effect (ran %d times by quiescence)", id, n)
			}
		}
		for _, id := range sp.LateReply {
			if injected[id] && replies[id] != 1 {
				add("C04", "request %s to the restarted service got %d responses by quiescence (want exactly one)", id, replies[id])
				add("C03", "the restarted service does not give the same guarantees: request %s got %d responses by quiescence", id, replies[id])
			}
		}
	}
	if sp.Shutdown {
		if r.Deadlock {
			add("C03", "deadlock: Shutdown/Serve never return; blocked: %s", blockedString(r))
		}
		if r.Horizon {
			add("C03", "execution did not finish within the step horizon")
		}
		if complete {
			for _, b := range r.Blocked {
				if strings.Contains(b.Name, "startWorker") {
					add("C03", "worker thread %s still alive after Shutdown and Serve returned (%s)", b.Name, b.Op)
				}
			}
			if sp.Closes >= 0 && closes != sp.Closes {
				add("C03", "Conn.Close called %d times, want %d", closes, sp.Closes)
			}
			for id, g := range open {
				add("C03", "callback %s (group %q) started but never finished", id, g)
			}
		}
	} else if r.Deadlock {
		add("C02", "deadlock with pending work: %s", blockedString(r))
	}
	for _, p := range r.Panics {
		add("C03", "thread panicked: %s", firstLines(p, 6))
	}
	// "expect-serve-returned N": emitted by a scenario at a quiescent point after a Shutdown has returned
	nret := 0
	for _, e := range r.Events {
		if strings.HasPrefix(e.Text, "serve.ret ") {
			nret++
		}
		if strings.HasPrefix(e.Text, "expect-serve-returned ") {
			var n int
			fmt.Sscanf(e.Text, "expect-serve-returned %d", &n)
			if nret < n {
				add("C03", "Shutdown has returned and the system is quiescent (the service has been served again) but only %d of %d earlier Serve calls have returned", nret, n)
			}
		}
	}
	if sp.Query != nil {
		out = append(out, JudgeQuery(sp.Query, r)...)
	}
	if sp.StoreHandler {
		return JudgeStoreHandler(r)
	}
	if sp.Store {
		return JudgeStore(r)
	}
	if sp.Index {
		return JudgeIndex(r)
	}
	if sp.Legacy {
		return JudgeLegacy(r)
	}
	return out
}

func keys(m map[string]string) []string {
	var k []string
	for s := range m {
		k = append(k, s)
	}
	return k
}

func blockedString(r *vsched.Result) string {
	var s []string
	for _, b := range r.Blocked {
		s = append(s, fmt.Sprintf("%s@%s/%d", b.Name, b.Op, b.Phase))
	}
	return strings.Join(s, ", ")
}

func firstLines(s string, n int) string {
	l := strings.Split(s, "\n")
	if len(l) > n {
		l = l[:n]
	}
	return strings.Join(l, " | ")
}

// isQueryCB: callback ids of query requests (q<ev>:<query>) and of the expiry call (nil<ev>).
func isQueryCB(id string) bool {
	return strings.HasPrefix(id, "nil") || (strings.HasPrefix(id, "q") && strings.Contains(id, ":"))
}

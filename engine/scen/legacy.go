package scen

import (
	"encoding/json"
	"fmt"
	"strings"

	"github.com/dgraph-io/badger"
	res "github.com/jirenius/go-res"
	"github.com/jirenius/go-res/middleware"
	"github.com/jirenius/go-res/middleware/resbadger"

	"verif/vsched"
)

// LM1 (C20 under interleavings): two model resources served through the legacy BadgerDB middleware; two
// threads each apply a change event to one of them through With (different groups, two workers), in LM2 a third
// one fetches the first resource meanwhile. Every read-write transaction has a second scheduling point between the
// return of its closure and the commit (vsched.SplitCommit), so that whatever the closure handed to the
// transaction can be disturbed by the other thread before it is written.
// Oracle: afterwards the stored JSON of both resources and the get responses equal the fold of the events.
func init() {
	for _, v := range []string{"LM1-middleware", "LM1-resbadger", "LM2-middleware", "LM2-resbadger"} {
		pkg, reader := v[4:], v[:3] == "LM2" // LM2: LM1 with a third thread fetching the first resource meanwhile
		reg(&Scenario{Name: v, Make: func(cfg Cfg) (func(), *Spec) {
			sp := &Spec{Closes: -1, Legacy: true}
			return func() {
				ClearDB()
				vsched.SplitCommit(true)
				w := NewWorld(cfg)
				w.S.SetLogger(nil)
				if pkg == "middleware" {
					w.S.Handle("m.$id", res.Model, middleware.BadgerDB{DB: DB})
				} else {
					w.S.Handle("m.$id", resbadger.BadgerDB{DB: DB}.Model())
				}
				sdone := make(chan struct{}, 1)
				w.StartServe(sdone)
				with := func(rid string, f func(r res.Resource)) {
					if err := w.S.With(rid, f); err != nil {
						vsched.Note(Mon, "with-error "+rid+" "+err.Error())
					}
				}
				for _, id := range []string{"a", "b"} {
					with("t.m."+id, func(r res.Resource) {
						r.CreateEvent(map[string]interface{}{"a": 0, "b": "init-" + r.PathParam("id")})
					})
				}
				vsched.AwaitQuiescence()
				done := make(chan struct{}, 4)
				spawn("T0", done, func() {
					with("t.m.a", func(r res.Resource) {
						r.ChangeEvent(map[string]interface{}{"a": 1, "b": "xxxxxxxxxxxxxxxxxxxxxxxx"})
					})
				})
				spawn("T1", done, func() {
					with("t.m.b", func(r res.Resource) {
						r.ChangeEvent(map[string]interface{}{"a": 2, "b": "y"})
					})
				})
				if reader {
					spawn("G", done, func() { w.Req("get.t.m.a", "R1") })
					join(done, 1)
				}
				join(done, 2)
				vsched.AwaitQuiescence()
				raw := map[string]string{}
				DB.View(func(txn *badger.Txn) error {
					for _, k := range []string{"t.m.a", "t.m.b"} {
						item, err := txn.Get([]byte(k))
						if err != nil {
							raw[k] = "error:" + err.Error()
							continue
						}
						v, _ := item.ValueCopy(nil)
						raw[k] = normJSON(string(v))
					}
					return nil
				})
				vsched.Emit(Mon, fmt.Sprintf("lm-final a=%s b=%s", raw["t.m.a"], raw["t.m.b"]))
				w.Req("get.t.m.a", "RA")
				w.Req("get.t.m.b", "RB")
				vsched.AwaitQuiescence()
			}, sp
		}})
	}
}

func normJSON(s string) string {
	var v interface{}
	if err := json.Unmarshal([]byte(s), &v); err != nil {
		return "invalid:" + s
	}
	b, _ := json.Marshal(v)
	return string(b)
}

// JudgeLegacy is the LM1 oracle.
func JudgeLegacy(r *vsched.Result) []string {
	var out []string
	add := func(prop, format string, a ...any) { out = append(out, prop+": "+fmt.Sprintf(format, a...)) }
	for _, p := range r.Panics {
		add("C20", "thread panicked: %s", firstLines(p, 6))
	}
	if r.Deadlock || r.Horizon {
		add("C20", "execution did not finish: %s", blockedString(r))
		return out
	}
	const wantA = `{"a":1,"b":"xxxxxxxxxxxxxxxxxxxxxxxx"}`
	const wantB = `{"a":2,"b":"y"}`
	const oldA = `{"a":0,"b":"init-a"}`
	replies := map[string]int{}
	final, sentR1 := false, false
	for _, e := range r.Events {
		switch {
		case strings.HasPrefix(e.Text, "lm-final "):
			final = true
			if want := "lm-final a=" + wantA + " b=" + wantB; e.Text != want {
				add("C20", "after one change event on each of two resources (applied concurrently) the database holds %q, the fold of the events is %q", e.Text, want)
			}
		case strings.HasPrefix(e.Text, "inject get.t.m.a reply=R1"):
			sentR1 = true
		case strings.HasPrefix(e.Text, "with-error "):
			add("C20", "With failed: %s", e.Text)
		case strings.HasPrefix(e.Text, "pub R"):
			f := strings.SplitN(e.Text, " ", 3)
			if len(f) < 3 {
				continue
			}
			replies[f[1]]++
			var m struct {
				Result *struct {
					Model json.RawMessage `json:"model"`
				} `json:"result"`
			}
			got := "no model"
			if json.Unmarshal([]byte(f[2]), &m) == nil && m.Result != nil {
				got = normJSON(string(m.Result.Model))
			}
			switch f[1] {
			case "RA":
				if got != wantA {
					add("C20", "get t.m.a serves %s, the fold of the events is %s", got, wantA)
				}
			case "RB":
				if got != wantB {
					add("C20", "get t.m.b serves %s, the fold of the events is %s", got, wantB)
				}
			case "R1":
				if got != wantA && got != oldA {
					add("C20", "a get of t.m.a concurrent with its change event serves %s, neither the value before (%s) nor after (%s) the event", got, oldA, wantA)
				}
			}
		}
	}
	if !final {
		add("C20", "scenario did not reach its end")
	}
	for _, id := range []string{"R1", "RA", "RB"} {
		if id == "R1" && !sentR1 {
			continue
		}
		if replies[id] != 1 {
			add("C04", "request %s got %d responses", id, replies[id])
		}
	}
	return out
}

package scen

import (
	res "github.com/jirenius/go-res"
	"github.com/jirenius/go-res/logger"
	"strings"
	"time"
	"verif/envnats"

	"fmt"

	"verif/vsched"
)

// Scenario is a closed client program plus what its oracles need to know.
type Scenario struct {
	Name    string
	Make    func(cfg Cfg) (body func(), spec *Spec)
	Horizon int // step horizon of one execution (0: the explorer's default)
}

// join waits for n completions on done.
func join(done chan struct{}, n int) {
	for i := 0; i < n; i++ {
		vsched.Recv(done)
	}
}

func spawn(name string, done chan struct{}, f func()) {
	vsched.Go(name, func() {
		f()
		vsched.Send(done, struct{}{})
	})
}

func shutdown(w *World) {
	vsched.Emit(Mon, "shutdown.call")
	var err error
	Guard("Shutdown", func() { err = w.S.Shutdown() })
	vsched.Emit(Mon, fmt.Sprintf("shutdown.ret err=%v", err))
}

// Scenarios is the registry of service scenarios (DESIGN.md section 4: Q* for C01/C02, S* for C03).
var Scenarios = map[string]*Scenario{}

func reg(s *Scenario) { Scenarios[s.Name] = s }

func init() {
	// Q1 basic: requests to two a-resources, b and the parallel p, against With/WithGroup/WithResource.
	reg(&Scenario{Name: "Q1", Make: func(cfg Cfg) (func(), *Spec) {
		sp := &Spec{MustRun: []string{"R1", "R2", "R3", "R4", "R5", "W1", "W2", "W3"}, NoHandler: []string{"W4", "W5", "W6"}, Closes: -1}
		if cfg.Group != "parallel" {
			sp.Order = append(sp.Order, [2]string{"W1", "W2"})
		}
		if cfg.Group == "literal" {
			sp.Order = append(sp.Order, [2]string{"R1", "R2"})
		}
		return func() {
			w := NewWorld(cfg)
			sdone := make(chan struct{}, 1)
			w.StartServe(sdone)
			done := make(chan struct{}, 4)
			spawn("N", done, func() {
				w.Req("get."+w.A("1"), "R1")
				w.Req("get."+w.A("2"), "R2")
				w.Req("get.t.b", "R3")
				w.Req("call.t.p.m", "R4")
				w.Req("call.t.p.m", "R5")
			})
			spawn("P", done, func() {
				w.With("W1", w.A("1"))
				w.WithGroup("W2", w.RefGroup(w.A("1")))
				w.WithResource("W3", "t.b")
				w.With("W4", "t.zz")
				// near misses of the service name: no separator after it, and the bare name with a trailing dot
				w.With("W5", "txb")
				w.With("W6", "tb")
			})
			join(done, 2)
			vsched.AwaitQuiescence()
			vsched.Emit(Mon, "quiesced")
		}, sp
	}})

	// Q1s: a smaller basic program (two producers, one shared group) used for deeper bounds.
	reg(&Scenario{Name: "Q1s", Make: func(cfg Cfg) (func(), *Spec) {
		sp := &Spec{MustRun: []string{"R1", "R2", "W1", "W2"}, Closes: -1, Order: [][2]string{{"W1", "W2"}}}
		if cfg.Group == "literal" {
			sp.Order = append(sp.Order, [2]string{"R1", "R2"})
		}
		if cfg.Group == "parallel" {
			sp.Order = nil
		}
		return func() {
			w := NewWorld(cfg)
			sdone := make(chan struct{}, 1)
			w.StartServe(sdone)
			done := make(chan struct{}, 4)
			spawn("N", done, func() {
				w.Req("get."+w.A("1"), "R1")
				w.Req("call."+w.A("2")+".m", "R2")
			})
			spawn("P", done, func() {
				w.With("W1", w.A("1"))
				w.WithGroup("W2", w.RefGroup(w.A("1")))
			})
			join(done, 2)
			vsched.AwaitQuiescence()
			vsched.Emit(Mon, "quiesced")
		}, sp
	}})

	// Q8 nested: a callback submits to its own group and to another group from inside (a worker is a producer
	// too), while a request for the first resource arrives.
	reg(&Scenario{Name: "Q8", Make: func(cfg Cfg) (func(), *Spec) {
		sp := &Spec{MustRun: []string{"R1", "W1", "W2", "W3", "W4"}, Closes: -1, Order: [][2]string{{"W1", "W2"}, {"W2", "W4"}}}
		if cfg.Group == "parallel" {
			sp.Order = nil
		}
		return func() {
			w := NewWorld(cfg)
			sdone := make(chan struct{}, 1)
			w.StartServe(sdone)
			done := make(chan struct{}, 4)
			spawn("N", done, func() { w.Req("get."+w.A("1"), "R1") })
			spawn("P", done, func() {
				vsched.Note(Mon, "submit W1")
				w.S.With(w.A("1"), func(r res.Resource) {
					vsched.Emit(Mon, "enter W1 g="+r.Group()+" want="+w.RefGroup(r.ResourceName()))
					if p := w.scratch[r.Group()]; p != nil {
						*p++
					}
					w.With("W2", w.A("1")) // own group: must wait for W1 to finish
					w.With("W3", w.A("2")) // another group
					w.With("W4", w.A("1"))
					vsched.Emit(Mon, "exit W1")
				})
				vsched.Note(Mon, "ret W1 ok")
			})
			join(done, 2)
			vsched.AwaitQuiescence()
			vsched.Emit(Mon, "quiesced")
		}, sp
	}})

	// Q9 backlog: one group has a long backlog (36 callbacks queued behind a gate) while another group waits for
	// the worker; while the backlog drains a further callback is submitted to the busy group.
	reg(&Scenario{Name: "Q9", Make: func(cfg Cfg) (func(), *Spec) {
		const n = 36
		sp := &Spec{Closes: -1, MustRun: []string{"G", "V1", "X"}}
		for i := 1; i <= n; i++ {
			sp.MustRun = append(sp.MustRun, fmt.Sprintf("B%02d", i))
			if i > 1 && cfg.Group != "parallel" {
				sp.Order = append(sp.Order, [2]string{fmt.Sprintf("B%02d", i-1), fmt.Sprintf("B%02d", i)})
			}
		}
		if cfg.Group != "parallel" {
			sp.Order = append(sp.Order, [2]string{fmt.Sprintf("B%02d", n), "X"})
		}
		return func() {
			w := NewWorld(cfg)
			sdone := make(chan struct{}, 1)
			w.StartServe(sdone)
			gate := make(chan struct{}, 1)
			entered := make(chan struct{}, 1)
			vsched.Note(Mon, "submit G")
			w.S.WithGroup("free", func(*res.Service) {
				vsched.Emit(Mon, "enter G g=free want=free")
				vsched.Send(entered, struct{}{})
				vsched.Recv(gate)
				vsched.Emit(Mon, "exit G")
			})
			vsched.Note(Mon, "ret G ok")
			vsched.Recv(entered)
			for i := 1; i <= n; i++ {
				w.With(fmt.Sprintf("B%02d", i), w.A("1"))
			}
			w.With("V1", w.A("2"))
			done := make(chan struct{}, 2)
			spawn("U", done, func() { vsched.Send(gate, struct{}{}) })
			spawn("P", done, func() { w.With("X", w.A("1")) })
			join(done, 2)
			vsched.AwaitQuiescence()
			vsched.Emit(Mon, "quiesced")
		}, sp
	}})

	// T1: two requests on different resources whose handlers send a timeout pre-response before replying.
	reg(&Scenario{Name: "T1", Make: func(cfg Cfg) (func(), *Spec) {
		sp := &Spec{MustRun: []string{"R1", "R2"}, Closes: -1,
			WantPre: map[string]string{"R1": `timeout:"42000"`, "R2": `timeout:"5000"`}}
		return func() {
			var w *World
			w = NewWorld(cfg, res.Call("t", func(r res.CallRequest) {
				w.CB(r.Query(), r.Group(), w.RefGroup(r.ResourceName()))
				if strings.HasSuffix(r.ResourceName(), ".1") {
					r.Timeout(42 * time.Second)
				} else {
					r.Timeout(5 * time.Second)
				}
				r.OK(nil)
			}))
			sdone := make(chan struct{}, 1)
			w.StartServe(sdone)
			done := make(chan struct{}, 4)
			spawn("N1", done, func() { w.Req("call."+w.A("1")+".t", "R1") })
			spawn("N2", done, func() { w.Req("call."+w.A("2")+".t", "R2") })
			join(done, 2)
			vsched.AwaitQuiescence()
			vsched.Emit(Mon, "quiesced")
		}, sp
	}})

	// Q12 long backlog: 300 callbacks queued on one group behind a gate, another group waiting, and a further
	// callback submitted to the busy group from inside its 130th callback.
	reg(&Scenario{Name: "Q12", Horizon: 200000, Make: func(cfg Cfg) (func(), *Spec) {
		const n = 300
		sp := &Spec{Closes: -1, MustRun: []string{"G", "V1", "X"}}
		for i := 1; i <= n; i++ {
			sp.MustRun = append(sp.MustRun, fmt.Sprintf("B%03d", i))
			if i > 1 && cfg.Group != "parallel" {
				sp.Order = append(sp.Order, [2]string{fmt.Sprintf("B%03d", i-1), fmt.Sprintf("B%03d", i)})
			}
		}
		if cfg.Group != "parallel" {
			sp.Order = append(sp.Order, [2]string{fmt.Sprintf("B%03d", n), "X"})
		}
		return func() {
			w := NewWorld(cfg)
			sdone := make(chan struct{}, 1)
			w.StartServe(sdone)
			gate := make(chan struct{}, 1)
			entered := make(chan struct{}, 1)
			vsched.Note(Mon, "submit G")
			w.S.WithGroup("free", func(*res.Service) {
				vsched.Emit(Mon, "enter G g=free want=free")
				vsched.Send(entered, struct{}{})
				vsched.Recv(gate)
				vsched.Emit(Mon, "exit G")
			})
			vsched.Note(Mon, "ret G ok")
			vsched.Recv(entered)
			for i := 1; i <= n; i++ {
				i := i
				id := fmt.Sprintf("B%03d", i)
				vsched.Note(Mon, "submit "+id)
				w.S.With(w.A("1"), func(r res.Resource) {
					vsched.Emit(Mon, "enter "+id+" g="+r.Group()+" want="+w.RefGroup(r.ResourceName()))
					if i == 130 {
						w.With("X", w.A("1"))
					}
					vsched.Emit(Mon, "exit "+id)
				})
				vsched.Note(Mon, "ret "+id+" ok")
			}
			w.With("V1", w.A("2"))
			vsched.Send(gate, struct{}{})
			vsched.AwaitQuiescence()
			vsched.Emit(Mon, "quiesced")
		}, sp
	}})

	// Q10 chain: a group that is never idle for 700 callbacks, each one submitting the next from inside (the worker
	// is always in the last queued callback when the next arrives; the queue slice grows and is reused).
	reg(&Scenario{Name: "Q10", Horizon: 200000, Make: func(cfg Cfg) (func(), *Spec) {
		const n = 700
		sp := &Spec{Closes: -1}
		for i := 0; i < n; i++ {
			sp.MustRun = append(sp.MustRun, fmt.Sprintf("N%03d", i))
		}
		return func() {
			w := NewWorld(cfg)
			sdone := make(chan struct{}, 1)
			w.StartServe(sdone)
			var submit func(i int)
			submit = func(i int) {
				id := fmt.Sprintf("N%03d", i)
				vsched.Note(Mon, "submit "+id)
				w.S.WithGroup("free", func(*res.Service) {
					vsched.Emit(Mon, "enter "+id+" g=free want=free")
					if i+1 < n {
						submit(i + 1)
					}
					vsched.Emit(Mon, "exit "+id)
				})
				vsched.Note(Mon, "ret "+id+" ok")
			}
			submit(0)
			vsched.AwaitQuiescence()
			vsched.Emit(Mon, "quiesced")
		}, sp
	}})

	// Q11: two resources of different patterns that share a group through the same ${tag} template (tagged
	// configurations; otherwise two plain resources).
	reg(&Scenario{Name: "Q11", Make: func(cfg Cfg) (func(), *Spec) {
		sp := &Spec{MustRun: []string{"R1", "R2", "W1"}, Closes: -1}
		return func() {
			w := NewWorld(cfg)
			other := "t.b"
			if cfg.Group == "tagged" {
				other = "t.c.z.1"
			}
			sdone := make(chan struct{}, 1)
			w.StartServe(sdone)
			done := make(chan struct{}, 4)
			spawn("N", done, func() {
				w.Req("get."+w.A("1"), "R1")
				w.Req("get."+other, "R2")
			})
			spawn("P", done, func() { w.With("W1", other) })
			join(done, 2)
			vsched.AwaitQuiescence()
			vsched.Emit(Mon, "quiesced")
		}, sp
	}})

	// Q2 idle->busy: a group drains completely, then is hit again by P and N concurrently.
	reg(&Scenario{Name: "Q2", Make: func(cfg Cfg) (func(), *Spec) {
		sp := &Spec{MustRun: []string{"W0", "R1", "W1"}, Closes: -1, Order: [][2]string{{"W0", "R1"}, {"W0", "W1"}}}
		if cfg.Group == "parallel" {
			sp.Order = nil
		}
		return func() {
			w := NewWorld(cfg)
			sdone := make(chan struct{}, 1)
			w.StartServe(sdone)
			w.With("W0", w.A("1"))
			vsched.AwaitQuiescence()
			done := make(chan struct{}, 4)
			spawn("N", done, func() { w.Req("get."+w.A("1"), "R1") })
			spawn("P", done, func() { w.With("W1", w.A("1")) })
			join(done, 2)
			vsched.AwaitQuiescence()
			vsched.Emit(Mon, "quiesced")
		}, sp
	}})

	// Q3 window: four distinct groups submitted back-to-back (with InCh=1 the work buffer is re-sliced).
	reg(&Scenario{Name: "Q3", Make: func(cfg Cfg) (func(), *Spec) {
		sp := &Spec{MustRun: []string{"R1", "R2", "R3", "G4"}, Closes: -1}
		return func() {
			w := NewWorld(cfg)
			sdone := make(chan struct{}, 1)
			w.StartServe(sdone)
			done := make(chan struct{}, 4)
			spawn("N", done, func() {
				w.Req("get."+w.A("1"), "R1")
				w.Req("get."+w.A("2"), "R2")
				w.Req("get.t.b", "R3")
			})
			spawn("P", done, func() { w.WithGroup("G4", "free") })
			join(done, 2)
			vsched.AwaitQuiescence()
			vsched.Emit(Mon, "quiesced")
		}, sp
	}})

	// Q6 restart: Serve -> Shutdown -> Serve, callbacks in both epochs.
	reg(&Scenario{Name: "Q6", Make: func(cfg Cfg) (func(), *Spec) {
		sp := &Spec{Shutdown: true, Closes: 1, Order: [][2]string{{"W1", "W2"}}}
		if cfg.Group == "parallel" {
			sp.Order = nil
		}
		return func() {
			w := NewWorld(cfg)
			sdone := make(chan struct{}, 2)
			w.StartServe(sdone)
			w.With("W0", w.A("1"))
			vsched.AwaitQuiescence()
			shutdown(w)
			vsched.Recv(sdone)
			vsched.Emit(Mon, "epoch2")
			w.StartServe(sdone)
			done := make(chan struct{}, 4)
			spawn("N", done, func() { w.Req("get."+w.A("1"), "R1") })
			spawn("P", done, func() { w.With("W1", w.A("1")); w.With("W2", w.A("1")) })
			join(done, 2)
			vsched.AwaitQuiescence()
			vsched.Emit(Mon, "quiesced")
			shutdown(w)
			vsched.Recv(sdone)
			vsched.AwaitQuiescence()
		}, sp
	}})

	// S1: Shutdown against two With calls.
	reg(&Scenario{Name: "S1", Make: func(cfg Cfg) (func(), *Spec) {
		sp := &Spec{Shutdown: true, Closes: 1, Order: [][2]string{{"W1", "W2"}}}
		if cfg.Group == "parallel" {
			sp.Order = nil
		}
		return func() {
			w := NewWorld(cfg)
			sdone := make(chan struct{}, 1)
			w.StartServe(sdone)
			done := make(chan struct{}, 4)
			spawn("P", done, func() { w.With("W1", w.A("1")); w.With("W2", w.A("1")) })
			spawn("X", done, func() { shutdown(w) })
			join(done, 2)
			vsched.Recv(sdone)
			vsched.AwaitQuiescence()
		}, sp
	}})

	// S2: Shutdown against two message deliveries.
	reg(&Scenario{Name: "S2", Make: func(cfg Cfg) (func(), *Spec) {
		sp := &Spec{Shutdown: true, Closes: 1}
		return func() {
			w := NewWorld(cfg)
			sdone := make(chan struct{}, 1)
			w.StartServe(sdone)
			done := make(chan struct{}, 4)
			vsched.Go("N", func() {
				// a delivery may stay blocked forever once the service stopped reading: not joined
				w.Req("get."+w.A("1"), "R1")
				w.Req("get.t.b", "R2")
			})
			spawn("X", done, func() { shutdown(w) })
			join(done, 1)
			vsched.Recv(sdone)
			vsched.AwaitQuiescence()
		}, sp
	}})

	// S2u: Shutdown against deliveries for resources nobody handles (answered with system.notFound) and for a
	// resource with handlers but no matching method.
	reg(&Scenario{Name: "S2u", Make: func(cfg Cfg) (func(), *Spec) {
		sp := &Spec{Shutdown: true, Closes: 1}
		return func() {
			w := NewWorld(cfg)
			sdone := make(chan struct{}, 1)
			w.StartServe(sdone)
			done := make(chan struct{}, 4)
			vsched.Go("N", func() {
				w.Req("get.t.unknown", "R1")
				w.Req("call.t.b.nomethod", "R2")
				w.Req("get.t.unknown.too", "R3")
			})
			spawn("X", done, func() { shutdown(w) })
			join(done, 1)
			vsched.Recv(sdone)
			vsched.AwaitQuiescence()
		}, sp
	}})

	// S3x: Shutdown against one publishing API call (the last three are payload-less events on a Resource
	// handle kept from Service.Resource, emitted from outside any callback).
	for _, api := range []string{"Reset", "ResetAll", "TokenEvent", "TokenEventWithID", "TokenReset", "Reaccess", "DeleteEv", "CustomNil"} {
		api := api
		reg(&Scenario{Name: "S3" + api, Make: func(cfg Cfg) (func(), *Spec) {
			sp := &Spec{Shutdown: true, Closes: 1}
			return func() {
				w := NewWorld(cfg)
				sdone := make(chan struct{}, 1)
				w.StartServe(sdone)
				done := make(chan struct{}, 4)
				spawn("A", done, func() {
					Guard(api, func() {
						switch api {
						case "Reset":
							w.S.Reset([]string{"t.>"}, nil)
						case "ResetAll":
							w.S.ResetAll()
						case "TokenEvent":
							w.S.TokenEvent("c1", nil)
						case "TokenEventWithID":
							w.S.TokenEventWithID("c1", "tid", nil)
						case "TokenReset":
							w.S.TokenReset("auth.t.a", "tid")
						case "Reaccess", "DeleteEv", "CustomNil":
							r, err := w.S.Resource(w.A("1"))
							if err != nil {
								panic(err)
							}
							vsched.Yield()
							switch api {
							case "Reaccess":
								r.ReaccessEvent()
							case "DeleteEv":
								r.DeleteEvent()
							default:
								r.Event("ping", nil)
							}
						}
					})
				})
				spawn("X", done, func() { shutdown(w) })
				join(done, 2)
				vsched.Recv(sdone)
				vsched.AwaitQuiescence()
			}, sp
		}})
	}

	// S4: Shutdown against a callback that is mid-execution and emits an event after yielding.
	reg(&Scenario{Name: "S4", Make: func(cfg Cfg) (func(), *Spec) {
		sp := &Spec{Shutdown: true, Closes: 1}
		return func() {
			w := NewWorld(cfg)
			sdone := make(chan struct{}, 1)
			w.StartServe(sdone)
			started := make(chan struct{}, 1)
			vsched.Emit(Mon, "submit W1")
			w.S.With(w.A("1"), func(r res.Resource) {
				vsched.Emit(Mon, "enter W1 g="+r.Group()+" want="+w.RefGroup(r.ResourceName()))
				vsched.Send(started, struct{}{})
				vsched.Yield()
				Guard("ChangeEvent", func() { r.ChangeEvent(map[string]interface{}{"v": 3}) })
				vsched.Emit(Mon, "exit W1")
			})
			vsched.Recv(started)
			shutdown(w)
			vsched.Recv(sdone)
			vsched.AwaitQuiescence()
		}, sp
	}})

	// S4q: as S4, but the callback that is mid-execution starts a query event (subscribes on the connection).
	reg(&Scenario{Name: "S4q", Make: func(cfg Cfg) (func(), *Spec) {
		sp := &Spec{Shutdown: true, Closes: 1}
		return func() {
			w := NewWorld(cfg)
			sdone := make(chan struct{}, 1)
			w.StartServe(sdone)
			started := make(chan struct{}, 1)
			vsched.Emit(Mon, "submit W1")
			w.S.With(w.A("1"), func(r res.Resource) {
				vsched.Emit(Mon, "enter W1 g="+r.Group()+" want="+w.RefGroup(r.ResourceName()))
				vsched.Send(started, struct{}{})
				vsched.Yield()
				Guard("QueryEvent", func() {
					r.QueryEvent(func(q res.QueryRequest) {
						if q == nil {
							vsched.Emit(Mon, "qnil")
						}
					})
				})
				vsched.Emit(Mon, "exit W1")
			})
			vsched.Recv(started)
			shutdown(w)
			vsched.Recv(sdone)
			vsched.Sleep(10 * time.Second)
			vsched.AwaitQuiescence()
		}, sp
	}})

	// S7: subscription failure (Serve itself starts Shutdown on another goroutine).
	reg(&Scenario{Name: "S7", Make: func(cfg Cfg) (func(), *Spec) {
		sp := &Spec{Shutdown: true, Closes: 1}
		return func() {
			w := NewWorld(cfg)
			w.C.FailSub = map[int]bool{1: true}
			sdone := make(chan struct{}, 1)
			vsched.Go("serve", func() {
				err := w.S.Serve(w.C)
				vsched.Emit(Mon, fmt.Sprintf("serve.ret err=%v", err))
				vsched.Send(sdone, struct{}{})
			})
			vsched.Recv(sdone)
			vsched.AwaitQuiescence()
		}, sp
	}})
}

func init() {
	// L1: loggers used from several threads at once (C16).
	reg(&Scenario{Name: "L1", Make: func(cfg Cfg) (func(), *Spec) {
		sp := &Spec{Closes: -1}
		return func() {
			ml := logger.NewMemLogger().SetTrace(true)
			sl := logger.NewStdLogger().SetTrace(true)
			sl.SetFlags(0)
			done := make(chan struct{}, 8)
			spawn("L-a", done, func() { ml.Infof("a %d", 1); ml.Errorf("a %d", 2); sl.Tracef("std a") })
			spawn("L-b", done, func() { ml.Tracef("b %d", 1); ml.Infof("b %d", 2); sl.Errorf("std b") })
			spawn("L-c", done, func() { _ = ml.String(); sl.Infof("std c"); _ = ml.String() })
			join(done, 3)
			vsched.Emit(Mon, "log "+fmt.Sprint(len(ml.String())))
		}, sp
	}})

	// S1L: S1 with a MemLogger attached to the service, so that every log call of every thread is raced too.
	reg(&Scenario{Name: "S1L", Make: func(cfg Cfg) (func(), *Spec) {
		sp := &Spec{Shutdown: true, Closes: 1}
		return func() {
			w := NewWorld(cfg)
			w.S.SetLogger(logger.NewMemLogger().SetTrace(true))
			sdone := make(chan struct{}, 1)
			w.StartServe(sdone)
			done := make(chan struct{}, 4)
			spawn("N", done, func() { w.Req("get."+w.A("1"), "R1") })
			spawn("A", done, func() { Guard("TokenEvent", func() { w.S.TokenEvent("c1", nil) }) })
			spawn("X", done, func() { shutdown(w) })
			join(done, 3)
			vsched.Recv(sdone)
			vsched.AwaitQuiescence()
		}, sp
	}})
}

func init() {
	// Q7: two submitters ordered by happens-before (P1 signals P2 after its With returned).
	reg(&Scenario{Name: "Q7", Make: func(cfg Cfg) (func(), *Spec) {
		sp := &Spec{MustRun: []string{"W1", "W2", "R1"}, Closes: -1, Order: [][2]string{{"W1", "W2"}}}
		if cfg.Group == "parallel" {
			sp.Order = nil
		}
		return func() {
			w := NewWorld(cfg)
			sdone := make(chan struct{}, 1)
			w.StartServe(sdone)
			done := make(chan struct{}, 4)
			hb := make(chan struct{}, 1)
			spawn("P1", done, func() { w.With("W1", w.A("1")); vsched.Send(hb, struct{}{}) })
			spawn("P2", done, func() { vsched.Recv(hb); w.WithGroup("W2", w.RefGroup(w.A("1"))) })
			spawn("N", done, func() { w.Req("get."+w.A("1"), "R1") })
			join(done, 3)
			vsched.AwaitQuiescence()
			vsched.Emit(Mon, "quiesced")
		}, sp
	}})

	// S8 / S8r: Shutdown drops work that is still queued behind a busy worker; after a restart the same groups
	// and resources must be served again (nothing of the first epoch's queues may leak into the second).
	for _, variant := range []string{"S8", "S8r"} {
		variant := variant
		reg(&Scenario{Name: variant, Make: func(cfg Cfg) (func(), *Spec) {
			sp := &Spec{Shutdown: true, Closes: 1, Late: []string{"W3", "W4"}, LateReply: []string{"R8"}}
			return func() {
				w := NewWorld(cfg)
				sdone := make(chan struct{}, 2)
				w.StartServe(sdone)
				started := make(chan struct{}, 1)
				release := make(chan struct{}, 1)
				vsched.Emit(Mon, "submit W1")
				w.S.With(w.A("1"), func(r res.Resource) {
					vsched.Emit(Mon, "enter W1 g="+r.Group()+" want="+w.RefGroup(r.ResourceName()))
					vsched.Send(started, struct{}{})
					vsched.Recv(release)
					vsched.Emit(Mon, "exit W1")
				})
				vsched.Recv(started)
				// with one worker these wait in the work queue behind W1
				if variant == "S8" {
					w.With("W2", w.A("2"))
					w.WithGroup("W6", "free")
				} else {
					w.Req("get."+w.A("2"), "R1")
				}
				done := make(chan struct{}, 4)
				spawn("X", done, func() { shutdown(w) })
				spawn("U", done, func() { vsched.Send(release, struct{}{}) })
				join(done, 2)
				vsched.Recv(sdone)
				vsched.Emit(Mon, "epoch2")
				w.StartServe(sdone)
				if variant == "S8" {
					w.With("W3", w.A("2"))
					w.WithGroup("W4", "free")
				} else {
					w.Req("get."+w.A("2"), "R8")
				}
				vsched.AwaitQuiescence()
				shutdown(w)
				vsched.Recv(sdone)
				vsched.AwaitQuiescence()
			}, sp
		}})
	}

	// S9: two concurrent Shutdown calls.
	reg(&Scenario{Name: "S9", Make: func(cfg Cfg) (func(), *Spec) {
		sp := &Spec{Shutdown: true, Closes: 1}
		return func() {
			w := NewWorld(cfg)
			sdone := make(chan struct{}, 2)
			w.StartServe(sdone)
			done := make(chan struct{}, 4)
			spawn("X1", done, func() { shutdown(w) })
			spawn("X2", done, func() { shutdown(w) })
			spawn("P", done, func() { w.With("W1", w.A("1")) })
			join(done, 3)
			vsched.Recv(sdone)
			vsched.AwaitQuiescence()
		}, sp
	}})

	// S10: two concurrent Serve calls on one service: one serves, the other is refused.
	reg(&Scenario{Name: "S10", Make: func(cfg Cfg) (func(), *Spec) {
		sp := &Spec{Shutdown: true, Closes: 1}
		return func() {
			w := NewWorld(cfg)
			sdone := make(chan struct{}, 2)
			for i := 0; i < 2; i++ {
				vsched.Go("serve", func() {
					err := w.S.Serve(w.C)
					vsched.Emit(Mon, fmt.Sprintf("serve.ret err=%v", err))
					vsched.Send(sdone, struct{}{})
				})
			}
			vsched.Recv(w.Served)
			w.With("W1", w.A("1"))
			vsched.AwaitQuiescence()
			shutdown(w)
			vsched.Recv(sdone)
			vsched.Recv(sdone)
			vsched.AwaitQuiescence()
		}, sp
	}})

	// S11: Shutdown races with the start-up of Serve.
	reg(&Scenario{Name: "S11", Make: func(cfg Cfg) (func(), *Spec) {
		sp := &Spec{Shutdown: true, Closes: 1}
		return func() {
			w := NewWorld(cfg)
			sdone := make(chan struct{}, 2)
			vsched.Go("serve", func() {
				err := w.S.Serve(w.C)
				vsched.Emit(Mon, fmt.Sprintf("serve.ret err=%v", err))
				vsched.Send(sdone, struct{}{})
			})
			vsched.Emit(Mon, "shutdown.call")
			var err error
			Guard("Shutdown", func() { err = w.S.Shutdown() })
			vsched.Emit(Mon, fmt.Sprintf("shutdown.ret err=%v", err))
			if err != nil {
				// not started yet: the service comes up, then it is shut down
				vsched.Recv(w.Served)
				shutdown(w)
			}
			vsched.Recv(sdone)
			vsched.AwaitQuiescence()
		}, sp
	}})

	// S12: With, Reset and a token event race with the start-up of Serve (each is either refused or takes effect).
	reg(&Scenario{Name: "S12", Make: func(cfg Cfg) (func(), *Spec) {
		sp := &Spec{Shutdown: true, Closes: 1}
		return func() {
			w := NewWorld(cfg)
			sdone := make(chan struct{}, 2)
			vsched.Go("serve", func() {
				err := w.S.Serve(w.C)
				vsched.Emit(Mon, fmt.Sprintf("serve.ret err=%v", err))
				vsched.Send(sdone, struct{}{})
			})
			done := make(chan struct{}, 4)
			spawn("P", done, func() { w.With("W1", w.A("1")) })
			spawn("A", done, func() {
				Guard("Reset", func() { w.S.Reset([]string{"t.>"}, nil) })
				Guard("TokenEvent", func() { w.S.TokenEvent("c1", nil) })
			})
			join(done, 2)
			vsched.Recv(w.Served)
			vsched.AwaitQuiescence()
			shutdown(w)
			vsched.Recv(sdone)
			vsched.AwaitQuiescence()
		}, sp
	}})

	// S13: restart on a fresh connection after a Shutdown that overlapped a callback emitting an event: the reset,
	// the events and the replies of the second epoch must go out on the new connection.
	reg(&Scenario{Name: "S13", Make: func(cfg Cfg) (func(), *Spec) {
		sp := &Spec{Shutdown: true, Closes: 1, Late: []string{"W3"}, LateReply: []string{"R8"}}
		return func() {
			w := NewWorld(cfg)
			sp.Conn2Want = []string{"system.reset", "event." + w.A("1") + ".change", "R8"}
			sdone := make(chan struct{}, 2)
			w.StartServe(sdone)
			started := make(chan struct{}, 1)
			vsched.Emit(Mon, "submit W1")
			w.S.With(w.A("1"), func(r res.Resource) {
				vsched.Emit(Mon, "enter W1 g="+r.Group()+" want="+w.RefGroup(r.ResourceName()))
				vsched.Send(started, struct{}{})
				vsched.Yield()
				Guard("ChangeEvent", func() { r.ChangeEvent(map[string]interface{}{"v": 3}) })
				vsched.Emit(Mon, "exit W1")
			})
			vsched.Recv(started)
			shutdown(w)
			vsched.Recv(sdone)
			vsched.Emit(Mon, "epoch2")
			c2 := envnats.New()
			c2.KeepPubs = true
			w.C = c2
			w.StartServe(sdone)
			vsched.Note(Mon, "submit W3")
			w.S.With(w.A("1"), func(r res.Resource) {
				vsched.Emit(Mon, "enter W3 g="+r.Group()+" want="+w.RefGroup(r.ResourceName()))
				Guard("ChangeEvent", func() { r.ChangeEvent(map[string]interface{}{"v": 4}) })
				vsched.Emit(Mon, "exit W3")
			})
			vsched.Note(Mon, "ret W3 ok")
			w.Req("get."+w.A("1"), "R8")
			vsched.AwaitQuiescence()
			var subj []string
			for _, m := range c2.Pubs {
				subj = append(subj, m.Subject)
			}
			vsched.Emit(Mon, "conn2 "+strings.Join(subj, " "))
			shutdown(w)
			vsched.Recv(sdone)
			vsched.AwaitQuiescence()
		}, sp
	}})

	// S13b: as S13 on one connection, but the second Serve is called as soon as Shutdown has returned, without
	// waiting for the first Serve call to return.
	reg(&Scenario{Name: "S13b", Make: func(cfg Cfg) (func(), *Spec) {
		sp := &Spec{Shutdown: true, Closes: 1, Late: []string{"W3"}}
		return func() {
			w := NewWorld(cfg)
			sdone := make(chan struct{}, 2)
			w.StartServe(sdone)
			started := make(chan struct{}, 1)
			vsched.Emit(Mon, "submit W1")
			w.S.With(w.A("1"), func(r res.Resource) {
				vsched.Emit(Mon, "enter W1 g="+r.Group()+" want="+w.RefGroup(r.ResourceName()))
				vsched.Send(started, struct{}{})
				vsched.Yield()
				if p := w.scratch[r.Group()]; p != nil {
					*p++
				}
				vsched.Emit(Mon, "exit W1")
			})
			vsched.Recv(started)
			shutdown(w)
			vsched.Emit(Mon, "epoch2")
			w.StartServe(sdone)
			w.With("W3", w.A("1"))
			vsched.AwaitQuiescence()
			// nothing is running any more: the Serve call of the first start must have returned by now
			vsched.Emit(Mon, "expect-serve-returned 1")
			shutdown(w)
			vsched.Recv(sdone)
			vsched.Recv(sdone)
			vsched.AwaitQuiescence()
		}, sp
	}})

	// S6: a straggling submitter spans a full stop/start cycle.
	reg(&Scenario{Name: "S6", Make: func(cfg Cfg) (func(), *Spec) {
		sp := &Spec{Shutdown: true, Closes: 1}
		return func() {
			w := NewWorld(cfg)
			sdone := make(chan struct{}, 2)
			w.StartServe(sdone)
			done := make(chan struct{}, 4)
			spawn("P", done, func() { w.With("W1", w.A("1")); w.With("W2", w.A("1")) })
			shutdown(w)
			vsched.Recv(sdone)
			vsched.Emit(Mon, "epoch2")
			w.StartServe(sdone)
			join(done, 1)
			vsched.AwaitQuiescence()
			shutdown(w)
			vsched.Recv(sdone)
			vsched.AwaitQuiescence()
		}, sp
	}})
}

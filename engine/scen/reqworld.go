package scen

import (
	"errors"
	"fmt"
	"sort"
	"strings"
	"time"

	res "github.com/jirenius/go-res"

	"verif/envnats"
	"verif/vsched"
)

type zeroStrategy struct{}

func (zeroStrategy) Choose(n, ncur int, key uint64) int { return 0 }

// RunSeq runs body as the main thread under the default schedule (preemption bound 0, first enabled
// thread at every point): one deterministic execution with exact quiescence detection.
func RunSeq(body func()) *vsched.Result {
	envnats.Reset()
	return vsched.Run(vsched.Config{Horizon: 200000}, zeroStrategy{}, body)
}

// HSpec says which handler kinds a pattern is registered with.
type HSpec struct {
	Pattern string
	Access  bool
	Get     bool
	Call    []string
	Auth    []string
	New     bool
	Type    string // "", model, collection
}

// Seen is what a handler recorded about its request.
type Seen struct {
	Marker string // pattern/kind[/method]
	Vals   map[string]string
}

// ReqCase is one request against one registration.
type ReqCase struct {
	Specs   []HSpec
	Subject string
	Payload []byte
	NoData  bool
	Script  []string
}

// ReqResult is everything observable.
type ReqResult struct {
	Replies  []string // payloads published on the reply subject
	Pubs     []envnats.Msg
	Invoked  []Seen
	ProbeOK  bool
	Panics   []string
	Deadlock bool
}

var errPlain = errors.New("plain error")
var errCustom = &res.Error{Code: "custom.error", Message: "Custom", Data: map[string]int{"x": 1}}

// RunAction performs one script action on the request object.
func RunAction(kind string, r interface{}, act string) {
	type common interface {
		Error(error)
		NotFound()
		Timeout(time.Duration)
	}
	c := r.(common)
	rs, _ := r.(res.Resource)
	switch act {
	case "ok":
		switch kind {
		case "access":
			r.(res.AccessRequest).AccessGranted()
		case "get":
			g := r.(res.GetRequest)
			if g.ResourceType() == res.TypeCollection {
				g.Collection([]int{1, 2})
			} else {
				g.Model(map[string]int{"v": 1})
			}
		case "call":
			r.(res.CallRequest).OK(map[string]int{"r": 1})
		case "auth":
			r.(res.AuthRequest).OK(nil)
		case "new":
			r.(res.NewRequest).New(res.Ref("t.created"))
		}
	case "err":
		c.Error(errCustom)
	case "errplain":
		c.Error(errPlain)
	case "errwrap":
		// an ordinary error that merely wraps a library error is not "of the library's error type"
		c.Error(fmt.Errorf("lookup of user failed: %w", res.ErrNotFound))
	case "errStd":
		// a library error value with a predefined code but its own message and data: returned verbatim
		c.Error(&res.Error{Code: res.CodeNotFound, Message: "User 42 not found", Data: map[string]int{"id": 42}})
	case "errStdData":
		// the predefined code and message, with data of its own
		c.Error(&res.Error{Code: res.CodeNotFound, Message: "Not found", Data: map[string]int{"id": 42}})
	case "panicWrap":
		panic(fmt.Errorf("lookup of user failed: %w", res.ErrNotFound))
	case "notfound":
		c.NotFound()
	case "timeout":
		c.Timeout(1500 * time.Millisecond)
	case "event":
		rs.Event("foo", map[string]int{"e": 1})
	case "value":
		rs.Value()
	case "panicErr":
		panic(errCustom)
	case "panicPlain":
		panic(errPlain)
	case "panicStr":
		panic("boom")
	case "panic42":
		panic(42)
	case "panicNilErr":
		var e *res.Error // a typed nil: "any value"
		panic(e)
	case "setmeta":
		r.(interface{ SetResponseStatus(int) }).SetResponseStatus(303)
	case "setmeta201":
		r.(interface{ SetResponseStatus(int) }).SetResponseStatus(201)
	case "resource":
		r.(interface{ Resource(string) }).Resource("t.created")
	default:
		panic("unknown action " + act)
	}
}

func record(kind, pattern, method string, r interface{}) Seen {
	s := Seen{Marker: pattern + "/" + kind, Vals: map[string]string{}}
	if method != "" {
		s.Marker += "/" + method
	}
	if x, ok := r.(res.Resource); ok {
		s.Vals["rname"] = x.ResourceName()
		s.Vals["query"] = x.Query()
		s.Vals["group"] = x.Group()
		var pp []string
		for k, v := range x.PathParams() {
			pp = append(pp, k+"="+v)
		}
		sort.Strings(pp)
		s.Vals["params"] = strings.Join(pp, ",")
	}
	if x, ok := r.(*res.Request); ok {
		s.Vals["cid"] = x.CID()
		s.Vals["rawparams"] = string(x.RawParams())
		s.Vals["rawtoken"] = string(x.RawToken())
		s.Vals["host"] = x.Host()
		s.Vals["remoteAddr"] = x.RemoteAddr()
		s.Vals["uri"] = x.URI()
		s.Vals["ishttp"] = fmt.Sprint(x.IsHTTP())
		s.Vals["method"] = x.Method()
		s.Vals["type"] = x.Type()
		var hh []string
		for k, v := range x.Header() {
			hh = append(hh, k+"="+strings.Join(v, "|"))
		}
		sort.Strings(hh)
		s.Vals["header"] = strings.Join(hh, ",")
	}
	return s
}

// RunReq executes the case on a fresh service inside the scheduler.
func RunReq(c ReqCase) *ReqResult {
	out := &ReqResult{}
	r := RunSeq(func() {
		conn := envnats.New()
		conn.Quiet = true
		conn.KeepPubs = true
		s := res.NewService("t")
		s.SetLogger(nil)
		s.SetWorkerCount(1)
		s.SetInChannelSize(8)
		run := func(kind, pattern, method string, r interface{}) {
			out.Invoked = append(out.Invoked, record(kind, pattern, method, r))
			if _, nested := r.(*res.Request); !nested && kind == "get" {
				// nested Value() call: answer and return, the script belongs to the outer request
				r.(res.GetRequest).Model(map[string]int{"v": 1})
				return
			}
			for _, a := range c.Script {
				RunAction(kind, r, a)
			}
		}
		for _, h := range c.Specs {
			h := h
			var opts []res.Option
			switch h.Type {
			case "model":
				opts = append(opts, res.Model)
			case "collection":
				opts = append(opts, res.Collection)
			}
			if h.Access {
				opts = append(opts, res.Access(func(r res.AccessRequest) { run("access", h.Pattern, "", r) }))
			}
			if h.Get {
				opts = append(opts, res.GetResource(func(r res.GetRequest) { run("get", h.Pattern, "", r) }))
			}
			for _, m := range h.Call {
				m := m
				opts = append(opts, res.Call(m, func(r res.CallRequest) { run("call", h.Pattern, m, r) }))
			}
			for _, m := range h.Auth {
				m := m
				opts = append(opts, res.Auth(m, func(r res.AuthRequest) { run("auth", h.Pattern, m, r) }))
			}
			if h.New {
				opts = append(opts, res.New(func(r res.NewRequest) { run("new", h.Pattern, "", r) }))
			}
			s.Handle(h.Pattern, opts...)
		}
		s.Handle("probe", res.GetModel(func(r res.ModelRequest) { r.Model(map[string]bool{"alive": true}) }), res.Access(res.AccessGranted))
		served := make(chan struct{}, 1)
		s.SetOnServe(func(*res.Service) { vsched.Send(served, struct{}{}) })
		vsched.Go("serve", func() { s.Serve(conn) })
		vsched.Recv(served)
		n0 := len(conn.Pubs)
		payload := c.Payload
		if c.NoData {
			payload = nil
		}
		conn.Inject(c.Subject, "REPLY", payload)
		vsched.AwaitQuiescence()
		out.Pubs = append(out.Pubs, conn.Pubs[n0:]...)
		for _, m := range out.Pubs {
			if m.Subject == "REPLY" {
				out.Replies = append(out.Replies, m.Data)
			}
		}
		n1 := len(conn.Pubs)
		conn.Inject("get.t.probe", "PROBE", nil)
		vsched.AwaitQuiescence()
		for _, m := range conn.Pubs[n1:] {
			if m.Subject == "PROBE" && strings.Contains(m.Data, `"alive":true`) {
				out.ProbeOK = true
			}
		}
	})
	out.Panics = r.Panics
	out.Deadlock = r.Deadlock
	return out
}

// BatchReq is one request of a batch.
type BatchReq struct {
	Subject string
	Payload []byte
}

// BatchRes is the observable outcome of one request of a batch.
type BatchRes struct {
	Replies []string
	Invoked []Seen
	Pubs    []envnats.Msg
}

// RunBatch registers specs on one fresh service and sends the requests one at a time, waiting for
// quiescence after each; every handler runs the same script.
func RunBatch(service string, specs []HSpec, script []string, reqs []BatchReq) ([]BatchRes, *vsched.Result) {
	out := make([]BatchRes, len(reqs))
	r := RunSeq(func() {
		conn := envnats.New()
		conn.Quiet = true
		conn.KeepPubs = true
		s := res.NewService(service)
		s.SetLogger(nil)
		s.SetWorkerCount(1)
		s.SetInChannelSize(8)
		cur := 0
		run := func(kind, pattern, method string, r interface{}) {
			out[cur].Invoked = append(out[cur].Invoked, record(kind, pattern, method, r))
			if _, outer := r.(*res.Request); !outer && kind == "get" {
				r.(res.GetRequest).Model(map[string]int{"v": 1})
				return
			}
			for _, a := range script {
				RunAction(kind, r, a)
			}
		}
		for _, h := range specs {
			h := h
			var opts []res.Option
			if h.Access {
				opts = append(opts, res.Access(func(r res.AccessRequest) { run("access", h.Pattern, "", r) }))
			}
			if h.Get {
				opts = append(opts, res.GetResource(func(r res.GetRequest) { run("get", h.Pattern, "", r) }))
			}
			for _, m := range h.Call {
				m := m
				opts = append(opts, res.Call(m, func(r res.CallRequest) { run("call", h.Pattern, m, r) }))
			}
			for _, m := range h.Auth {
				m := m
				opts = append(opts, res.Auth(m, func(r res.AuthRequest) { run("auth", h.Pattern, m, r) }))
			}
			if h.New {
				opts = append(opts, res.New(func(r res.NewRequest) { run("new", h.Pattern, "", r) }))
			}
			s.Handle(h.Pattern, opts...)
		}
		s.SetOwnedResources([]string{">"}, []string{">"})
		served := make(chan struct{}, 1)
		s.SetOnServe(func(*res.Service) { vsched.Send(served, struct{}{}) })
		vsched.Go("serve", func() { s.Serve(conn) })
		vsched.Recv(served)
		for i, q := range reqs {
			cur = i
			n0 := len(conn.Pubs)
			conn.Inject(q.Subject, "REPLY", q.Payload)
			vsched.AwaitQuiescence()
			out[i].Pubs = append(out[i].Pubs, conn.Pubs[n0:]...)
			for _, m := range out[i].Pubs {
				if m.Subject == "REPLY" {
					out[i].Replies = append(out[i].Replies, m.Data)
				}
			}
		}
	})
	return out, r
}

// Package scen holds the closed client programs (scenarios) that the explorer runs against the real
// go-res service, and the post-hoc oracles over their observation logs.
package scen

import (
	"fmt"
	"strings"

	res "github.com/jirenius/go-res"

	"verif/envnats"
	"verif/vsched"
)

const Mon = envnats.Mon

// Cfg is the common configuration axis of the service scenarios.
type Cfg struct {
	Workers int
	InCh    int
	Group   string // default | literal | tagged | parallel
	Reg     string // direct | mount | route
}

func (c Cfg) String() string {
	return fmt.Sprintf("w%d-in%d-%s-%s", c.Workers, c.InCh, c.Group, c.Reg)
}

// DefaultCfg is the base configuration.
var DefaultCfg = Cfg{Workers: 2, InCh: 4, Group: "default", Reg: "direct"}

// World is one fresh service + connection.
type World struct {
	Cfg     Cfg
	S       *res.Service
	C       *envnats.Conn
	Served  chan struct{}
	scratch map[string]*int
	ABase   string // resource name prefix of the a.$id resources
}

// RefGroup is the reference group computation for the resources of the standard world.
func (w *World) RefGroup(rname string) string {
	switch {
	case strings.HasPrefix(rname, w.ABase+"."):
		id := rname[len(w.ABase)+1:]
		switch w.Cfg.Group {
		case "literal":
			return "g"
		case "tagged":
			return "x." + id
		case "parallel":
			return ""
		}
		return rname
	case rname == "t.p":
		return ""
	case strings.HasPrefix(rname, "t.c.") && w.Cfg.Group == "tagged":
		// c.$k.$id carries the same group template as a.$id, with the tag at another token position
		return "x." + rname[strings.LastIndexByte(rname, '.')+1:]
	}
	return rname
}

// CB is the body of every harness callback: enter, touch the group's unsynchronised scratch word, exit.
func (w *World) CB(id, group, want string) {
	vsched.Emit(Mon, "enter "+id+" g="+group+" want="+want)
	if p := w.scratch[group]; p != nil {
		*p++
	}
	vsched.Emit(Mon, "exit "+id)
}

func (w *World) groupOpt() []res.Option {
	switch w.Cfg.Group {
	case "literal":
		return []res.Option{res.Group("g")}
	case "tagged":
		return []res.Option{res.Group("x.${id}")}
	case "parallel":
		return []res.Option{res.Parallel(true)}
	}
	return nil
}

// NewWorld builds the standard service: a.$id (model, get+call), b (model, get), p (parallel, call m).
// extra can add options to the a.$id handler.
func NewWorld(cfg Cfg, extraA ...res.Option) *World {
	w := &World{Cfg: cfg, C: envnats.New(), Served: make(chan struct{}, 4), scratch: map[string]*int{}}
	s := res.NewService("t")
	s.SetLogger(nil)
	s.SetWorkerCount(cfg.Workers)
	s.SetInChannelSize(cfg.InCh)
	w.S = s
	aopts := []res.Option{
		res.GetModel(func(r res.ModelRequest) {
			w.CB(r.Query(), r.Group(), w.RefGroup(r.ResourceName()))
			r.Model(map[string]int{"v": 1})
		}),
		res.Call("m", func(r res.CallRequest) {
			w.CB(r.Query(), r.Group(), w.RefGroup(r.ResourceName()))
			r.OK(nil)
		}),
		res.Access(func(r res.AccessRequest) {
			w.CB(r.Query(), r.Group(), w.RefGroup(r.ResourceName()))
			r.AccessGranted()
		}),
	}
	aopts = append(aopts, w.groupOpt()...)
	aopts = append(aopts, extraA...)
	switch cfg.Reg {
	case "mount":
		m := res.NewMux("")
		m.Handle("$id", aopts...)
		s.Mount("a", m)
		w.ABase = "t.a"
	case "route":
		s.Route("a", func(m *res.Mux) {
			m.Route("x", func(m2 *res.Mux) {
				m2.Handle("$id", aopts...)
			})
		})
		w.ABase = "t.a.x"
	default:
		s.Handle("a.$id", aopts...)
		w.ABase = "t.a"
	}
	if cfg.Group == "tagged" {
		// a second pattern with the same group template, its tag at a different position
		s.Handle("c.$k.$id", res.Group("x.${id}"), res.GetModel(func(r res.ModelRequest) {
			w.CB(r.Query(), r.Group(), w.RefGroup(r.ResourceName()))
			r.Model(map[string]int{"v": 3})
		}))
	}
	s.Handle("b", res.GetModel(func(r res.ModelRequest) {
		w.CB(r.Query(), r.Group(), w.RefGroup(r.ResourceName()))
		r.Model(map[string]int{"v": 2})
	}))
	s.Handle("p", res.Parallel(true), res.Call("m", func(r res.CallRequest) {
		w.CB(r.Query(), r.Group(), "")
		r.OK(nil)
	}))
	s.SetOnServe(func(*res.Service) { vsched.Send(w.Served, struct{}{}) })
	for _, g := range []string{"g", "x.1", "x.2", "t.b", w.ABase + ".1", w.ABase + ".2", "free"} {
		w.scratch[g] = new(int)
	}
	return w
}

// A returns the resource name of a.<id>.
func (w *World) A(id string) string { return w.ABase + "." + id }

// StartServe runs Serve on its own thread and waits until the service is up.
func (w *World) StartServe(done chan struct{}) {
	vsched.Go("serve", func() {
		err := w.S.Serve(w.C)
		vsched.Emit(Mon, fmt.Sprintf("serve.ret err=%v", err))
		vsched.Send(done, struct{}{})
	})
	vsched.Recv(w.Served)
}

// Req injects a request whose label (query and reply subject) is id.
func (w *World) Req(subject, id string) {
	w.C.Inject(subject, id, []byte(`{"query":"`+id+`"}`))
}

// Guard runs f and records a panic as an observation instead of killing the thread.
func Guard(what string, f func()) {
	defer func() {
		if p := recover(); p != nil {
			vsched.Emit(Mon, fmt.Sprintf("panic %s %v", what, firstLine(fmt.Sprint(p))))
		}
	}()
	f()
}

func firstLine(s string) string {
	if i := strings.IndexByte(s, '\n'); i >= 0 {
		return s[:i]
	}
	return s
}

// With submits a With callback labelled id.
func (w *World) With(id, rid string) {
	vsched.Note(Mon, "submit "+id)
	var err error
	Guard("With", func() {
		err = w.S.With(rid, func(r res.Resource) {
			w.CB(id, r.Group(), w.RefGroup(r.ResourceName()))
		})
	})
	if err != nil {
		vsched.Note(Mon, "ret "+id+" err")
	} else {
		vsched.Note(Mon, "ret "+id+" ok")
	}
}

// WithGroup submits a WithGroup callback labelled id.
func (w *World) WithGroup(id, group string) {
	vsched.Note(Mon, "submit "+id)
	Guard("WithGroup", func() {
		w.S.WithGroup(group, func(*res.Service) { w.CB(id, group, group) })
	})
	vsched.Note(Mon, "ret "+id+" ok")
}

// WithResource submits a WithResource callback labelled id for resource rid.
func (w *World) WithResource(id, rid string) {
	vsched.Note(Mon, "submit "+id)
	Guard("WithResource", func() {
		r, err := w.S.Resource(rid)
		if err != nil {
			vsched.Note(Mon, "ret "+id+" err")
			return
		}
		w.S.WithResource(r, func() { w.CB(id, r.Group(), w.RefGroup(r.ResourceName())) })
		vsched.Note(Mon, "ret "+id+" ok")
	})
}

package scen

import (
	"errors"
	"fmt"
	"strings"
	"time"

	res "github.com/jirenius/go-res"

	"verif/envnats"
	"verif/vsched"
)

// QSpec tells the C15 oracle what the scenario did.
type QSpec struct {
	CB       string            // callback behaviour
	Requests map[string]string // reply subject -> payload kind: valid | empty | nopayload | malformed
	FailSub  bool
	Events   int  // number of query events started
	Shutdown bool // the service is shut down while the event is active: the nil call cannot run any more
	// MinNil: the configured duration; the scenario reports the virtual time of the start ("qstart <ns>") and
	// of the nil call ("qnil <ns>"): the event may not expire earlier
	MinNil time.Duration
}

const qDuration = time.Second

type qworld struct {
	*World
	subj  chan string
	nilCh chan struct{}
}

// newQWorld: resource q (model, literal group "g") whose handlers never matter; query events are started by With callbacks.
func newQWorld(cfg Cfg) *qworld {
	w := NewWorld(cfg)
	q := &qworld{World: w, subj: make(chan string, 8), nilCh: make(chan struct{}, 8)}
	w.S.Handle("q", res.Group("g"), res.GetModel(func(r res.ModelRequest) { r.NotFound() }))
	w.S.SetQueryEventDuration(qDuration)
	w.C.OnPub = func(m envnats.Msg) {
		if strings.HasSuffix(m.Subject, ".query") {
			i := strings.Index(m.Data, `"subject":"`)
			s := m.Data[i+11:]
			s = s[:strings.IndexByte(s, '"')]
			vsched.Send(q.subj, s)
		}
	}
	return q
}

// qcb is the query callback with behaviour cb.
func (q *qworld) qcb(cb string, ev int) func(res.QueryRequest) {
	return func(r res.QueryRequest) {
		if r == nil {
			q.CB(fmt.Sprintf("nil%d", ev), "g", "g")
			vsched.Send(q.nilCh, struct{}{})
			return
		}
		id := fmt.Sprintf("q%d:%s", ev, r.Query())
		vsched.Emit(Mon, "enter "+id+" g="+r.Group()+" want=g")
		defer vsched.Emit(Mon, "exit "+id)
		switch cb {
		case "model":
			r.Model(map[string]int{"v": 1})
		case "events":
			r.(interface {
				ChangeEvent(map[string]interface{})
			}).ChangeEvent(map[string]interface{}{"k": 1})
		case "error":
			r.Error(errors.New("custom"))
		case "notfound":
			r.NotFound()
		case "panic":
			panic("boom")
		case "panicnil":
			var e *res.Error // typed nil
			panic(e)
		case "nothing":
		case "timeout":
			r.Timeout(5 * time.Second)
			r.Model(map[string]int{"v": 2})
		case "twice":
			r.Model(map[string]int{"v": 1})
			r.NotFound()
		}
	}
}

var qPayload = map[string]string{"valid": `{"query":"x=1"}`, "empty": `{"query":""}`, "nopayload": ``, "malformed": `{"query":`}

// requester sends one query request in two steps (accepted by the server, delivered later).
func (q *qworld) requester(subject, reply, kind string) {
	var p []byte
	if kind != "nopayload" {
		p = []byte(qPayload[kind])
	}
	for _, f := range q.C.Send(subject, reply, p) {
		q.C.Arrive(f)
	}
}

func init() {
	withRID := "t.q"
	mk := func(name, cb string, reqs []string, failSub, concurrent bool, chain int) {
		withRID := withRID
		reg(&Scenario{Name: name, Make: func(cfg Cfg) (func(), *Spec) {
			qs := &QSpec{CB: cb, Requests: map[string]string{}, FailSub: failSub, Events: chain}
			for i, k := range reqs {
				qs.Requests[fmt.Sprintf("RQ%d", i+1)] = k
			}
			sp := &Spec{Closes: -1, Query: qs}
			return func() {
				q := newQWorld(cfg)
				if failSub {
					q.C.FailSub = map[int]bool{6: true} // the first subscription after the six of Serve
				}
				sdone := make(chan struct{}, 1)
				q.StartServe(sdone)
				for ev := 0; ev < chain; ev++ {
					ev := ev
					q.S.With(withRID, func(r res.Resource) {
						q.CB(fmt.Sprintf("start%d", ev), r.Group(), "g")
						r.QueryEvent(q.qcb(cb, ev))
					})
					if failSub {
						vsched.Recv(q.nilCh)
						break
					}
					subject := vsched.Recv(q.subj)
					done := make(chan struct{}, 4)
					n := 0
					if ev == 0 {
						for i, k := range reqs {
							i, k := i, k
							n++
							spawn(fmt.Sprintf("RQ%d", i+1), done, func() { q.requester(subject, fmt.Sprintf("RQ%d", i+1), k) })
						}
						if concurrent {
							n++
							spawn("P", done, func() { q.WithGroup("W1", "g") })
						}
					}
					join(done, n)
					// the end of the query event is the nil call (waiting for virtual time alone would not
					// bound how late a delayed timer goroutine fires)
					vsched.Recv(q.nilCh)
					vsched.AwaitQuiescence()
				}
				vsched.AwaitQuiescence()
				vsched.Emit(Mon, "quiesced")
			}, sp
		}})
	}
	for _, cb := range []string{"model", "events", "error", "notfound", "panic", "panicnil", "nothing", "timeout", "twice"} {
		mk("QE1-"+cb, cb, []string{"valid"}, false, false, 1)
	}
	mk("QE0", "model", nil, false, false, 1)
	// QEshutdown: the service is shut down while a query event is active; the event expires afterwards.
	reg(&Scenario{Name: "QEshutdown", Make: func(cfg Cfg) (func(), *Spec) {
		qs := &QSpec{CB: "model", Requests: map[string]string{}, Events: 1, Shutdown: true}
		sp := &Spec{Closes: 1, Shutdown: true, Query: qs}
		return func() {
			q := newQWorld(cfg)
			sdone := make(chan struct{}, 1)
			q.StartServe(sdone)
			q.S.With("t.q", func(r res.Resource) {
				q.CB("start0", r.Group(), "g")
				r.QueryEvent(q.qcb("model", 0))
			})
			vsched.Recv(q.subj)
			shutdown(q.World)
			vsched.Recv(sdone)
			vsched.Sleep(3 * qDuration)
			vsched.AwaitQuiescence()
			vsched.Sleep(3 * qDuration)
			vsched.AwaitQuiescence()
		}, sp
	}})
	// QErestart: the service is shut down while a query event is active and served again before the event
	// expires; a second query event is started in the second epoch.
	reg(&Scenario{Name: "QErestart", Make: func(cfg Cfg) (func(), *Spec) {
		qs := &QSpec{CB: "model", Requests: map[string]string{}, Events: 2, Shutdown: true}
		sp := &Spec{Closes: 1, Shutdown: true, Query: qs}
		return func() {
			q := newQWorld(cfg)
			sdone := make(chan struct{}, 2)
			q.StartServe(sdone)
			q.S.With("t.q", func(r res.Resource) {
				q.CB("start0", r.Group(), "g")
				r.QueryEvent(q.qcb("model", 0))
			})
			vsched.Recv(q.subj)
			shutdown(q.World)
			vsched.Recv(sdone)
			vsched.Emit(Mon, "epoch2")
			q.StartServe(sdone)
			nil1 := make(chan struct{}, 1)
			q.S.With("t.q", func(r res.Resource) {
				q.CB("start1", r.Group(), "g")
				cb := q.qcb("model", 1)
				r.QueryEvent(func(qr res.QueryRequest) {
					cb(qr)
					if qr == nil {
						vsched.Send(nil1, struct{}{})
					}
				})
			})
			vsched.Recv(q.subj)
			// the second event ends with its nil call (the service is running); what is left of the first
			// event gets two further full durations after the final Shutdown
			vsched.Recv(nil1)
			vsched.AwaitQuiescence()
			shutdown(q.World)
			vsched.Recv(sdone)
			vsched.Sleep(3 * qDuration)
			vsched.AwaitQuiescence()
			vsched.Sleep(3 * qDuration)
			vsched.AwaitQuiescence()
		}, sp
	}})

	// QEduration: the query event duration is changed between two starts of the service; an event of the second
	// start lives for the new duration, and a request inside it is answered.
	reg(&Scenario{Name: "QEduration", Make: func(cfg Cfg) (func(), *Spec) {
		qs := &QSpec{CB: "model", Requests: map[string]string{"RQ1": "valid"}, Events: 1, MinNil: 3 * qDuration}
		sp := &Spec{Closes: -1, Query: qs}
		return func() {
			q := newQWorld(cfg)
			sdone := make(chan struct{}, 2)
			q.StartServe(sdone)
			shutdown(q.World)
			vsched.Recv(sdone)
			vsched.Emit(Mon, "epoch2")
			q.S.SetQueryEventDuration(3 * qDuration)
			q.StartServe(sdone)
			q.S.With("t.q", func(r res.Resource) {
				q.CB("start0", r.Group(), "g")
				cb := q.qcb("model", 0)
				vsched.Emit(Mon, fmt.Sprintf("qstart %d", vsched.Now().UnixNano()))
				r.QueryEvent(func(qr res.QueryRequest) {
					if qr == nil {
						vsched.Emit(Mon, fmt.Sprintf("qnil %d", vsched.Now().UnixNano()))
					}
					cb(qr)
				})
			})
			subject := vsched.Recv(q.subj)
			vsched.Sleep(2 * qDuration) // past the old duration, inside the new one
			q.requester(subject, "RQ1", "valid")
			vsched.Recv(q.nilCh)
			vsched.AwaitQuiescence()
			vsched.Emit(Mon, "quiesced")
		}, sp
	}})

	// QEshutdownBusy: the query event expires while Shutdown is waiting for a callback of the same group.
	reg(&Scenario{Name: "QEshutdownBusy", Make: func(cfg Cfg) (func(), *Spec) {
		qs := &QSpec{CB: "model", Requests: map[string]string{}, Events: 1, Shutdown: true}
		sp := &Spec{Closes: 1, Shutdown: true, Query: qs}
		return func() {
			q := newQWorld(cfg)
			sdone := make(chan struct{}, 1)
			q.StartServe(sdone)
			q.S.With("t.q", func(r res.Resource) {
				q.CB("start0", r.Group(), "g")
				r.QueryEvent(q.qcb("model", 0))
			})
			vsched.Recv(q.subj)
			entered := make(chan struct{}, 1)
			q.S.WithGroup("g", func(*res.Service) {
				vsched.Emit(Mon, "enter W1 g=g want=g")
				vsched.Send(entered, struct{}{})
				vsched.Sleep(3 * qDuration)
				q.CB("W1b", "", "")
				vsched.Emit(Mon, "exit W1")
			})
			vsched.Recv(entered)
			shutdown(q.World)
			vsched.Recv(sdone)
			vsched.Sleep(3 * qDuration)
			vsched.AwaitQuiescence()
		}, sp
	}})
	mk("QE2", "model", []string{"valid", "malformed"}, false, false, 1)
	mk("QEempty", "model", []string{"empty"}, false, false, 1)
	mk("QEnopayload", "model", []string{"nopayload"}, false, false, 1)
	// the query event is started on a resource that itself carries a query
	withRID = "t.q?foo=bar"
	mk("QEnopayloadQ", "model", []string{"nopayload", "empty"}, false, false, 1)
	mk("QE1Q", "model", []string{"valid"}, false, false, 1)
	withRID = "t.q"
	mk("QEfail", "model", nil, true, false, 1)
	mk("QEconc", "events", []string{"valid"}, false, true, 1)
	mk("QEchain", "nothing", []string{"valid"}, false, false, 3)
	// QEconcNil: no query request; the expiry call against a concurrent callback of the same group
	mk("QEconcNil", "model", nil, false, true, 1)
}

// JudgeQuery is the C15 oracle.
func JudgeQuery(qs *QSpec, r *vsched.Result) []string {
	var out []string
	add := func(format string, a ...any) { out = append(out, "C15: "+fmt.Sprintf(format, a...)) }
	arrived := map[string]int{} // reply -> step
	responses := map[string][]string{}
	drainStep := map[string]int{} // inbox -> step
	subs := map[string]bool{}
	released := map[string]bool{}
	queryPubs := 0
	nilCalls := map[string]int{}
	nilStep := map[string]int{}
	var qstart int64
	reqOfSend := map[string]string{}  // subject -> last reply (for arrived notes)
	lastSendReply := map[int]string{} // thread -> reply
	for _, e := range r.Events {
		f := strings.Fields(e.Text)
		if len(f) == 0 {
			continue
		}
		switch f[0] {
		case "send":
			for _, x := range f[1:] {
				if strings.HasPrefix(x, "reply=") {
					lastSendReply[e.Thread] = x[6:]
					reqOfSend[f[1]] = x[6:]
				}
			}
		case "arrived":
			arrived[lastSendReply[e.Thread]] = e.Step
		case "pub":
			if _, ok := qs.Requests[f[1]]; ok {
				responses[f[1]] = append(responses[f[1]], strings.Join(f[2:], " "))
			}
			if strings.HasSuffix(f[1], ".query") {
				queryPubs++
			}
		case "sub":
			if strings.HasPrefix(f[1], "_INBOX.") {
				subs[f[1]] = true
			}
		case "drain", "unsubscribe":
			if _, ok := drainStep[f[1]]; !ok {
				drainStep[f[1]] = e.Step
			}
			released[f[1]] = true
		case "qstart":
			fmt.Sscan(f[1], &qstart)
		case "qnil":
			var t int64
			fmt.Sscan(f[1], &t)
			if qs.MinNil > 0 && time.Duration(t-qstart) < qs.MinNil {
				add("the query event expired after %v, the configured duration is %v", time.Duration(t-qstart), qs.MinNil)
			}
		case "enter":
			id := f[1]
			if strings.HasPrefix(id, "nil") {
				nilCalls[id]++
				nilStep[id[3:]] = e.Step
			} else if strings.HasPrefix(id, "q") {
				ev := id[1:strings.IndexByte(id, ':')]
				if _, ok := nilStep[ev]; ok {
					add("query callback invoked with a request (%s) after it was invoked with nil", id)
				}
			}
		}
	}
	if r.Deadlock || r.Horizon {
		add("execution did not finish (deadlock=%v): %s", r.Deadlock, blockedString(r))
		return out
	}
	if qs.FailSub {
		if nilCalls["nil0"] != 1 {
			add("failed subscription: callback invoked with nil %d times, want once", nilCalls["nil0"])
		}
		if queryPubs != 0 {
			add("failed subscription: a query event was published")
		}
		return out
	}
	if queryPubs != qs.Events {
		add("%d query events published, want %d", queryPubs, qs.Events)
	}
	for ev := 0; ev < qs.Events && !qs.Shutdown; ev++ {
		if n := nilCalls[fmt.Sprintf("nil%d", ev)]; n != 1 {
			add("query event %d: callback invoked with nil %d times after expiry, want exactly once", ev, n)
		}
	}
	var firstDrain = -1
	for _, s := range drainStep {
		if firstDrain < 0 || s < firstDrain {
			firstDrain = s
		}
	}
	for reply, kind := range qs.Requests {
		resp := responses[reply]
		final := 0
		pre := 0
		cls := ""
		for _, d := range resp {
			if strings.HasPrefix(d, "timeout:") {
				pre++
			} else {
				final++
				cls = d
			}
		}
		if final > 1 {
			add("query request %s got %d responses: %v", reply, final, resp)
		}
		as, ok := arrived[reply]
		if ok && firstDrain >= 0 && as < firstDrain && final != 1 {
			add("query request %s was received while the query event was active but got %d responses", reply, final)
		}
		if final == 1 {
			want := ""
			switch kind {
			case "valid":
				want = map[string]string{"model": `{"result":{"model":{"v":1}}}`, "events": `{"result":{"events":[{"event":"change","data":{"values":{"k":1}}}]}}`,
					"error": `"error"`, "notfound": `system.notFound`, "panic": `system.internalError`, "panicnil": `system.internalError`, "nothing": `{"result":{"events":[]}}`,
					"timeout": `{"result":{"model":{"v":2}}}`, "twice": `{"result":{"model":{"v":1}}}`}[qs.CB]
				if qs.CB == "timeout" && pre != 1 {
					add("query request %s: %d pre-responses, want 1", reply, pre)
				}
			case "empty", "nopayload":
				want = "missing query"
			case "malformed":
				want = "system.internalError"
			}
			if !strings.Contains(cls, want) {
				add("query request %s (%s, callback %s) answered %s, want %s", reply, kind, qs.CB, cls, want)
			}
		}
	}
	for s := range subs {
		if !released[s] && !qs.Shutdown {
			add("subscription %s of the query event was never drained or unsubscribed", s)
		}
	}
	for _, b := range r.Blocked {
		if strings.Contains(b.Name, "startQueryListener") {
			add("listener goroutine of the query event is still alive at final quiescence (%s)", b.Op)
		}
		if strings.Contains(b.Name, "q.timer") {
			add("timer goroutine still alive at final quiescence (%s)", b.Op)
		}
	}
	return out
}

module verif

go 1.23

require (
	github.com/anishathalye/porcupine v1.3.0
	github.com/jirenius/go-res v0.0.0
)

replace github.com/jirenius/go-res => /repo

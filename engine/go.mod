module verif

go 1.23

require (
	github.com/anishathalye/porcupine v1.3.0
	github.com/jirenius/go-res v0.0.0
	github.com/nats-io/nats.go v1.10.0
	golang.org/x/tools v0.29.0
)

require (
	github.com/jirenius/keylock v1.0.0 // indirect
	github.com/jirenius/taskqueue v1.1.0 // indirect
	github.com/jirenius/timerqueue v1.0.0 // indirect
	github.com/nats-io/jwt v0.3.2 // indirect
	github.com/nats-io/nkeys v0.1.4 // indirect
	github.com/nats-io/nuid v1.0.1 // indirect
	golang.org/x/crypto v0.0.0-20200323165209-0ec3e9974c59 // indirect
	golang.org/x/mod v0.22.0 // indirect
	golang.org/x/sync v0.10.0 // indirect
)

replace github.com/jirenius/go-res => /repo

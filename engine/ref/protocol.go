package ref

import (
	"encoding/json"
	"fmt"
	"regexp"
	"strings"
)

var preRe = regexp.MustCompile(`^timeout:"\d+"$`)

// ValidSubject: a subject one may publish on.
func ValidSubject(s string) bool {
	if s == "" {
		return false
	}
	for _, t := range strings.Split(s, ".") {
		if t == "" || strings.ContainsAny(t, " \t\r\n*>") {
			return false
		}
	}
	return true
}

func isObj(v interface{}) (map[string]interface{}, bool) {
	m, ok := v.(map[string]interface{})
	return m, ok
}

func isInt(v interface{}) (int, bool) {
	f, ok := v.(float64)
	if !ok || f != float64(int(f)) {
		return 0, false
	}
	return int(f), true
}

// ValidateResponse checks the documented shape of a response payload; http tells whether the request was flagged isHttp.
func ValidateResponse(data string, http bool) string {
	if preRe.MatchString(data) {
		return ""
	}
	var v interface{}
	if err := json.Unmarshal([]byte(data), &v); err != nil {
		return "response is not JSON: " + err.Error()
	}
	m, ok := isObj(v)
	if !ok {
		return "response is not a JSON object"
	}
	n := 0
	for _, k := range []string{"result", "resource", "error"} {
		if _, ok := m[k]; ok {
			n++
		}
	}
	if n != 1 {
		return fmt.Sprintf("response has %d of result/resource/error", n)
	}
	for k := range m {
		switch k {
		case "result", "resource", "error":
		case "meta":
			if !http {
				return "meta on a response to a request that was not flagged as HTTP"
			}
			mm, ok := isObj(m["meta"])
			if !ok {
				return "meta is not an object"
			}
			for mk, mv := range mm {
				switch mk {
				case "status":
					if _, ok := isInt(mv); !ok {
						return "meta.status is not an integer"
					}
				case "header":
					h, ok := isObj(mv)
					if !ok {
						return "meta.header is not an object"
					}
					for _, hv := range h {
						arr, ok := hv.([]interface{})
						if !ok {
							return "meta.header value is not an array"
						}
						for _, s := range arr {
							if _, ok := s.(string); !ok {
								return "meta.header value is not an array of strings"
							}
						}
					}
				default:
					return "unknown meta member " + mk
				}
			}
		default:
			return "unknown response member " + k
		}
	}
	if e, ok := m["error"]; ok {
		em, ok := isObj(e)
		if !ok {
			return "error is not an object"
		}
		if _, ok := em["code"].(string); !ok {
			return "error.code is not a string"
		}
		if _, ok := em["message"].(string); !ok {
			return "error.message is not a string"
		}
		for k := range em {
			if k != "code" && k != "message" && k != "data" {
				return "unknown error member " + k
			}
		}
	}
	if r, ok := m["resource"]; ok {
		rm, ok := isObj(r)
		if !ok {
			return "resource is not a reference object"
		}
		rid, ok := rm["rid"].(string)
		if !ok || !NameValid(strings.SplitN(rid, "?", 2)[0]) {
			return "resource.rid is not a valid resource id"
		}
	}
	return ""
}

// ValidateEvent checks subject and payload of a non-response publish.
func ValidateEvent(subject, data string) string {
	if !ValidSubject(subject) {
		return "invalid subject"
	}
	var v interface{}
	hasData := data != ""
	if hasData {
		if err := json.Unmarshal([]byte(data), &v); err != nil {
			return "payload is not JSON: " + err.Error()
		}
	}
	m, _ := isObj(v)
	strs := func(x interface{}) bool {
		a, ok := x.([]interface{})
		if !ok {
			return false
		}
		for _, e := range a {
			if _, ok := e.(string); !ok {
				return false
			}
		}
		return true
	}
	switch {
	case subject == "system.reset":
		if m == nil {
			return "system.reset payload is not an object"
		}
		n := 0
		for k, x := range m {
			if k != "resources" && k != "access" {
				return "unknown system.reset member " + k
			}
			if !strs(x) {
				return "system.reset." + k + " is not an array of strings"
			}
			n++
		}
		if n == 0 {
			return "system.reset without resources and access"
		}
	case subject == "system.tokenReset":
		if m == nil || !strs(m["tids"]) {
			return "system.tokenReset.tids is not an array of strings"
		}
		if s, ok := m["subject"].(string); !ok || s == "" {
			return "system.tokenReset.subject is not a string"
		}
	case strings.HasPrefix(subject, "conn."):
		t := strings.Split(subject, ".")
		if len(t) != 3 || t[2] != "token" || !PartValid(t[1]) {
			return "not of the form conn.<cid>.token"
		}
		if m == nil {
			return "token event payload is not an object"
		}
		if _, ok := m["token"]; !ok {
			return "token event without token member"
		}
		for k, x := range m {
			if k == "tid" {
				if _, ok := x.(string); !ok {
					return "tid is not a string"
				}
			} else if k != "token" {
				return "unknown token event member " + k
			}
		}
	case strings.HasPrefix(subject, "event."):
		t := strings.Split(subject, ".")
		if len(t) < 3 {
			return "not of the form event.<resource>.<name>"
		}
		name := t[len(t)-1]
		if !PartValid(name) {
			return "invalid event name"
		}
		switch name {
		case "change":
			vals, ok := isObj(m["values"])
			if m == nil || !ok || len(vals) == 0 || len(m) != 1 {
				return "change event without non-empty values object"
			}
		case "add":
			if m == nil {
				return "add event payload is not an object"
			}
			if _, ok := m["value"]; !ok {
				return "add event without value"
			}
			if i, ok := isInt(m["idx"]); !ok || i < 0 || len(m) != 2 {
				return "add event without valid idx"
			}
		case "remove":
			if i, ok := isInt(m["idx"]); m == nil || !ok || i < 0 || len(m) != 1 {
				return "remove event without valid idx"
			}
		case "create", "delete", "reaccess":
			if hasData {
				return name + " event with a payload"
			}
		case "query":
			if s, ok := m["subject"].(string); m == nil || !ok || !ValidSubject(s) || len(m) != 1 {
				return "query event without valid subject"
			}
		case "patch", "unsubscribe":
			return "reserved event name " + name
		}
	default:
		return "subject of no documented form"
	}
	return ""
}

// --- reference dispatcher ---------------------------------------------------------------------

// RefSpec mirrors scen.HSpec.
type RefSpec struct {
	Pattern string
	Access  bool
	Get     bool
	Call    []string
	Auth    []string
	New     bool
}

func has(l []string, s string) bool {
	for _, x := range l {
		if x == s {
			return true
		}
	}
	return false
}

func specKey(p string) string {
	var b strings.Builder
	for _, t := range strings.Split(p, ".") {
		switch k, _ := Token(t); k {
		case TokFull:
			b.WriteByte('3')
		case TokAnon, TokTag:
			b.WriteByte('2')
		default:
			b.WriteByte('1')
		}
	}
	return b.String()
}

// Dispatch is the reference for which handler a request subject invokes.
// It returns marker ("" = no handler invoked), the static response class when no handler runs
// ("notFound", "methodNotFound", "internalError", "none"), the resource name and path params.
func Dispatch(service string, specs []RefSpec, subject string, payload []byte, noData bool) (marker, static, rname string, params map[string]string) {
	i := strings.IndexByte(subject, '.')
	rtype := subject[:i]
	rname = subject[i+1:]
	method := ""
	if rtype == "call" || rtype == "auth" {
		j := strings.LastIndexByte(rname, '.')
		method = rname[j+1:]
		rname = rname[:j]
	}
	best := -1
	for k, sp := range specs {
		full := sp.Pattern
		if service != "" {
			if full == "" {
				full = service
			} else {
				full = service + "." + full
			}
		}
		if vals, ok := Match(full, rname); ok {
			if best < 0 || specKey(sp.Pattern) < specKey(specs[best].Pattern) {
				best, params = k, vals
			}
		}
	}
	if best < 0 {
		return "", "notFound", rname, nil
	}
	if !noData && len(payload) > 0 {
		var v struct {
			CID        string              `json:"cid"`
			Params     json.RawMessage     `json:"params"`
			Token      json.RawMessage     `json:"token"`
			Header     map[string][]string `json:"header"`
			Host       string              `json:"host"`
			RemoteAddr string              `json:"remoteAddr"`
			URI        string              `json:"uri"`
			Query      string              `json:"query"`
			IsHTTP     bool                `json:"isHttp"`
		}
		if json.Unmarshal(payload, &v) != nil {
			return "", "internalError", rname, params
		}
	}
	sp := specs[best]
	switch rtype {
	case "access":
		if sp.Access {
			return sp.Pattern + "/access", "", rname, params
		}
		return "", "none", rname, params
	case "get":
		if sp.Get {
			return sp.Pattern + "/get", "", rname, params
		}
		return "", "notFound", rname, params
	case "call":
		if method == "new" && sp.New {
			return sp.Pattern + "/new", "", rname, params
		}
		if has(sp.Call, method) {
			return sp.Pattern + "/call/" + method, "", rname, params
		}
		if has(sp.Call, "*") {
			return sp.Pattern + "/call/*", "", rname, params
		}
		return "", "methodNotFound", rname, params
	case "auth":
		if has(sp.Auth, method) {
			return sp.Pattern + "/auth/" + method, "", rname, params
		}
		if has(sp.Auth, "*") {
			return sp.Pattern + "/auth/*", "", rname, params
		}
		return "", "methodNotFound", rname, params
	}
	return "", "none", rname, params
}

// ScriptOutcome is the reference response class of a handler script: "result", "resource", "error:<code>",
// whether meta is present, and the number of pre-responses and events it publishes.
func ScriptOutcome(kind string, script []string, http bool) (class string, meta bool, metaSpecified bool, pre int, events int) {
	replied := false
	status := false
	reply := func(c string) bool {
		if replied {
			return false // second reply panics inside the handler
		}
		replied = true
		class = c
		meta = status
		metaSpecified = true
		return true
	}
	stop := false
	for _, a := range script {
		if stop {
			break
		}
		switch a {
		case "ok":
			if !reply("result") {
				stop = true
			}
		case "resource":
			if !reply("resource") {
				stop = true
			}
		case "err":
			if !reply("error:custom.error") {
				stop = true
			}
		case "errplain", "errwrap":
			if !reply("error:system.internalError") {
				stop = true
			}
		case "errStd", "errStdData":
			if !reply("error:system.notFound") {
				stop = true
			}
		case "notfound":
			if !reply("error:system.notFound") {
				stop = true
			}
		case "timeout":
			pre++
		case "event":
			events++
		case "value":
		case "panicErr":
			if !replied {
				replied = true
				class = "error:custom.error"
				meta = status
			}
			stop = true
		case "panicPlain", "panicStr", "panic42", "panicNilErr", "panicWrap":
			if !replied {
				replied = true
				class = "error:system.internalError"
				meta = status
			}
			stop = true
		case "setmeta", "setmeta201":
			if !http || replied {
				// panics with a plain string
				if !replied {
					replied = true
					class = "error:system.internalError"
					meta = status
				}
				stop = true
			} else {
				status = true
			}
		}
	}
	if !replied {
		class = "error:system.internalError"
		meta = status
	}
	return
}

// ResponseClass classifies a response payload the way ScriptOutcome names classes.
func ResponseClass(data string) (class string, meta bool) {
	var m map[string]json.RawMessage
	if json.Unmarshal([]byte(data), &m) != nil {
		return "invalid", false
	}
	_, meta = m["meta"]
	switch {
	case m["error"] != nil:
		var e struct{ Code string }
		json.Unmarshal(m["error"], &e)
		return "error:" + e.Code, meta
	case m["resource"] != nil:
		return "resource", meta
	case m["result"] != nil:
		return "result", meta
	}
	return "invalid", meta
}

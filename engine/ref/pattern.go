// Package ref holds the deliberately boring reference models the sequential checks compare go-res with.
package ref

import "strings"

func validChar(c rune) bool { return c >= 33 && c <= 126 && c != '?' }

// TokKind classifies one pattern token.
type TokKind int

const (
	TokInvalid TokKind = iota
	TokLiteral
	TokTag  // $name
	TokAnon // *
	TokFull // >
)

// Token classifies t; unspecified reports shapes the documentation is silent about ($ inside a tag name).
func Token(t string) (k TokKind, unspecified bool) {
	if t == "" {
		return TokInvalid, false
	}
	for _, c := range t {
		if !validChar(c) || c == '.' {
			return TokInvalid, false
		}
	}
	switch {
	case t == "*":
		return TokAnon, false
	case t == ">":
		return TokFull, false
	case strings.ContainsAny(t, "*>"):
		return TokInvalid, false
	case t[0] == '$':
		if len(t) == 1 {
			return TokInvalid, false
		}
		if strings.Contains(t[1:], "$") {
			return TokTag, true
		}
		return TokTag, false
	}
	return TokLiteral, false
}

// PatternValid is the reference for Pattern.IsValid.
func PatternValid(p string) (valid, unspecified bool) {
	if p == "" {
		return true, false
	}
	toks := strings.Split(p, ".")
	seen := map[string]bool{}
	for i, t := range toks {
		k, u := Token(t)
		if u {
			unspecified = true
		}
		if k == TokTag {
			// the same tag twice: Pattern.IsValid accepts it, registration rejects it, the documentation is silent
			if seen[t] {
				unspecified = true
			}
			seen[t] = true
		}
		if k == TokInvalid {
			return false, unspecified
		}
		if k == TokFull && i != len(toks)-1 {
			return false, unspecified
		}
	}
	return true, unspecified
}

// NameValid: a resource name is dot separated non-empty parts without wildcard characters.
func NameValid(n string) bool {
	if n == "" {
		return false
	}
	for _, t := range strings.Split(n, ".") {
		if !PartValid(t) {
			return false
		}
	}
	return true
}

// PartValid is the reference for a valid name part (method, event name, connection id, id).
func PartValid(t string) bool {
	if t == "" {
		return false
	}
	for _, c := range t {
		if !validChar(c) || c == '*' || c == '>' || c == '.' {
			return false
		}
	}
	return true
}

// Match is the reference matcher for a valid pattern against a valid name; it also returns the tag values.
func Match(p, name string) (map[string]string, bool) {
	if p == "" {
		return nil, name == ""
	}
	if name == "" {
		return nil, false
	}
	pt := strings.Split(p, ".")
	nt := strings.Split(name, ".")
	var vals map[string]string
	for i, t := range pt {
		k, _ := Token(t)
		if k == TokFull {
			if len(nt) > i {
				return vals, true
			}
			return nil, false
		}
		if i >= len(nt) {
			return nil, false
		}
		switch k {
		case TokLiteral:
			if t != nt[i] {
				return nil, false
			}
		case TokTag:
			if vals == nil {
				vals = map[string]string{}
			}
			vals[t[1:]] = nt[i]
		}
	}
	if len(pt) != len(nt) {
		return nil, false
	}
	return vals, true
}

// Covers reports whether every name matched by pattern q is matched by pattern p (both valid, non-empty).
func Covers(p, q string) bool {
	if p == "" || q == "" {
		return p == q
	}
	pt := strings.Split(p, ".")
	qt := strings.Split(q, ".")
	for i, t := range pt {
		k, _ := Token(t)
		if k == TokFull {
			return len(qt) > i
		}
		if i >= len(qt) {
			return false
		}
		qk, _ := Token(qt[i])
		switch k {
		case TokLiteral:
			if qk != TokLiteral || t != qt[i] {
				return false
			}
		default:
			if qk == TokFull {
				return false
			}
		}
	}
	return len(pt) == len(qt)
}

// IndexWildcard is the reference for Pattern.IndexWildcard on a valid pattern.
func IndexWildcard(p string) int {
	off := 0
	for _, t := range strings.Split(p, ".") {
		if k, _ := Token(t); k == TokTag || k == TokAnon || k == TokFull {
			return off
		}
		off += len(t) + 1
	}
	return -1
}

// ReplaceTags is the reference for Pattern.ReplaceTags on a valid pattern.
func ReplaceTags(p string, m map[string]string) string {
	if p == "" {
		return p
	}
	toks := strings.Split(p, ".")
	for i, t := range toks {
		if k, _ := Token(t); k == TokTag {
			if v, ok := m[t[1:]]; ok {
				toks[i] = v
			}
		}
	}
	return strings.Join(toks, ".")
}

// Strings enumerates all strings over alphabet with length in [0,maxLen], shortest first.
func Strings(alphabet []string, maxLen int, f func(string) bool) {
	var rec func(prefix string, left int) bool
	for l := 0; l <= maxLen; l++ {
		rec = func(prefix string, left int) bool {
			if left == 0 {
				return f(prefix)
			}
			for _, a := range alphabet {
				if !rec(prefix+a, left-1) {
					return false
				}
			}
			return true
		}
		if !rec("", l) {
			return
		}
	}
}

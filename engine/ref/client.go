package ref

import (
	"encoding/json"
	"fmt"
	"reflect"
)

// Cache is the reference RES client cache for one resource: it applies the events a gateway would forward.
type Cache struct {
	Found      bool
	Model      map[string]interface{}
	Collection []interface{}
	IsModel    bool
}

// FromGet builds the cache from a get response payload.
func FromGet(resp string) (*Cache, error) {
	var r struct {
		Result *struct {
			Model      map[string]interface{} `json:"model"`
			Collection []interface{}          `json:"collection"`
		} `json:"result"`
		Error *struct{ Code string } `json:"error"`
	}
	if err := json.Unmarshal([]byte(resp), &r); err != nil {
		return nil, err
	}
	if r.Error != nil {
		if r.Error.Code == "system.notFound" {
			return &Cache{}, nil
		}
		return nil, fmt.Errorf("get failed: %s", r.Error.Code)
	}
	if r.Result == nil {
		return nil, fmt.Errorf("no result in %s", resp)
	}
	c := &Cache{Found: true}
	if r.Result.Model != nil {
		c.IsModel = true
		c.Model = r.Result.Model
	} else {
		c.Collection = r.Result.Collection
		if c.Collection == nil {
			c.Collection = []interface{}{}
		}
	}
	return c, nil
}

// Apply applies one event (name, JSON payload) to the cache; an error means the event cannot be applied
// by a client (index out of range, wrong resource type).
func (c *Cache) Apply(name, payload string) error {
	switch name {
	case "change":
		if !c.Found || !c.IsModel {
			return fmt.Errorf("change event on a resource that is not a cached model")
		}
		var ev struct {
			Values map[string]interface{} `json:"values"`
		}
		if err := json.Unmarshal([]byte(payload), &ev); err != nil {
			return err
		}
		for k, v := range ev.Values {
			if m, ok := v.(map[string]interface{}); ok && m["action"] == "delete" {
				if _, had := c.Model[k]; !had {
					return fmt.Errorf("delete action for key %q that the client does not have", k)
				}
				delete(c.Model, k)
			} else {
				if old, had := c.Model[k]; had && reflect.DeepEqual(old, v) {
					return fmt.Errorf("change event sets key %q to the value it already has", k)
				}
				c.Model[k] = v
			}
		}
	case "add":
		if !c.Found || c.IsModel {
			return fmt.Errorf("add event on a resource that is not a cached collection")
		}
		var ev struct {
			Value interface{} `json:"value"`
			Idx   int         `json:"idx"`
		}
		if err := json.Unmarshal([]byte(payload), &ev); err != nil {
			return err
		}
		if ev.Idx < 0 || ev.Idx > len(c.Collection) {
			return fmt.Errorf("add index %d out of range for length %d", ev.Idx, len(c.Collection))
		}
		c.Collection = append(c.Collection, nil)
		copy(c.Collection[ev.Idx+1:], c.Collection[ev.Idx:])
		c.Collection[ev.Idx] = ev.Value
	case "remove":
		if !c.Found || c.IsModel {
			return fmt.Errorf("remove event on a resource that is not a cached collection")
		}
		var ev struct {
			Idx int `json:"idx"`
		}
		if err := json.Unmarshal([]byte(payload), &ev); err != nil {
			return err
		}
		if ev.Idx < 0 || ev.Idx >= len(c.Collection) {
			return fmt.Errorf("remove index %d out of range for length %d", ev.Idx, len(c.Collection))
		}
		c.Collection = append(c.Collection[:ev.Idx], c.Collection[ev.Idx+1:]...)
	default:
		return fmt.Errorf("unexpected event %q", name)
	}
	return nil
}

// Equal compares two caches as JSON values.
func (c *Cache) Equal(d *Cache) bool {
	if c.Found != d.Found {
		return false
	}
	if !c.Found {
		return true
	}
	if c.IsModel != d.IsModel {
		return false
	}
	if c.IsModel {
		return reflect.DeepEqual(c.Model, d.Model)
	}
	if len(c.Collection) == 0 && len(d.Collection) == 0 {
		return true
	}
	return reflect.DeepEqual(c.Collection, d.Collection)
}

func (c *Cache) String() string {
	if !c.Found {
		return "<not found>"
	}
	var b []byte
	if c.IsModel {
		b, _ = json.Marshal(c.Model)
	} else {
		b, _ = json.Marshal(c.Collection)
	}
	return string(b)
}

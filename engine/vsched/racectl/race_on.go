//go:build race

// Package racectl wraps the race-detector annotations that only exist in race builds.
package racectl

import (
	"runtime"
	"unsafe"
)

const Enabled = true

func Disable()                      { runtime.RaceDisable() }
func Enable()                       { runtime.RaceEnable() }
func Acquire(p unsafe.Pointer)      { runtime.RaceAcquire(p) }
func Release(p unsafe.Pointer)      { runtime.RaceRelease(p) }
func ReleaseMerge(p unsafe.Pointer) { runtime.RaceReleaseMerge(p) }

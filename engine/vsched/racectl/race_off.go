//go:build !race

// Package racectl wraps the race-detector annotations that only exist in race builds.
package racectl

import "unsafe"

const Enabled = false

func Disable()                      {}
func Enable()                       {}
func Acquire(p unsafe.Pointer)      {}
func Release(p unsafe.Pointer)      {}
func ReleaseMerge(p unsafe.Pointer) {}

// Package vsched is a controlled scheduler for the real go-res code: every goroutine of the
// rewritten packages is a Thread, exactly one runs at a time, and every visible operation
// (lock, cond, waitgroup, atomic, channel, timer, spawn, harness emit) is a scheduling point
// decided by a Strategy. All bookkeeping is owned by one scheduler goroutine S (see DESIGN.md 2.2).
package vsched

import (
	"fmt"
	"runtime"
	"runtime/debug"
	"sort"
	"strings"
	"sync/atomic"
	"time"
	"unsafe"

	"verif/vsched/racectl"
)

// OpKind names a visible operation.
type OpKind uint8

const (
	OpStart OpKind = iota
	OpExit
	OpYield
	OpEmit
	OpSpawn
	OpLock
	OpUnlock
	OpRLock
	OpRUnlock
	OpWLock
	OpWUnlock
	OpCondWait
	OpCondSignal
	OpCondBroadcast
	OpWGAdd
	OpWGWait
	OpAtomicLoad
	OpAtomicStore
	OpRecv
	OpSend
	OpClose
	OpSelect
	OpSleep
	OpTimerNew
	OpTimerStop
	OpNow
	OpQuiesce
	OpClock
	OpTryLock
	OpTouch
)

var opNames = [...]string{"start", "exit", "yield", "emit", "spawn", "lock", "unlock", "rlock", "runlock", "wlock", "wunlock",
	"condwait", "signal", "broadcast", "wgadd", "wgwait", "aload", "astore", "recv", "send", "close", "select",
	"sleep", "timernew", "timerstop", "now", "quiesce", "clock", "trylock", "touch"}

func (k OpKind) String() string { return opNames[k] }

const maxSel = 4

type request struct {
	t     *Thread
	kind  OpKind
	obj   uintptr
	obj2  uintptr
	n     int64
	objs  [maxSel]uintptr
	nobjs int
	child *Thread
	site  uintptr
	tag   uint64 // extra data mixed into the event hash (emit text hash etc.)
}

type response struct {
	abort bool
	step  int
	alt   int
	val   int64
	flag  bool
	fail  string // non-empty: the thread must panic with this message (misuse of a primitive)
}

// Event is an observation recorded by a thread (thread-confined until the execution is joined).
type Event struct {
	Step    int
	Thread  int
	Monitor string
	Text    string
	Note    bool // recorded without a scheduling point: its position among other threads' events is not meaningful
}

type tstate uint8

const (
	tsNew tstate = iota
	tsRunning
	tsParked
	tsDone
)

// Thread is one controlled goroutine.
type Thread struct {
	id    int
	name  string
	ident uint64
	hash  uint64
	wake  chan response

	state    tstate
	pend     request
	phase    int // OpCondWait: 0 before release, 1 waiting for signal, 2 signalled
	deadline int64
	daemon   bool

	// thread-owned
	tid      int
	lastStep int
	events   []Event
	aborting bool
	panicVal string
	panicked bool
	syncByte byte
}

type rwState struct {
	writer  *Thread
	readers int
}

type timerState struct {
	deadline int64
	active   bool
	fired    bool
}

// Point is one decision point with more than one alternative.
type Point struct {
	N      int // number of alternatives
	NCur   int // leading alternatives that belong to the running thread (0 if it is not enabled)
	Chosen int
	Key    uint64 // state key before the decision (for HB caching)
	Step   int
}

// Strategy decides every choice.
type Strategy interface {
	// Choose returns the alternative to take among n (n>=2). ncur as in Point. key is the state key.
	Choose(n, ncur int, key uint64) int
}

// BlockedInfo describes a thread that had not finished when an execution ended.
type BlockedInfo struct {
	ID    int
	Name  string
	Op    string
	Phase int
	Site  string
}

// Result of one execution.
type Result struct {
	Events      []Event
	Points      []Point
	Steps       int
	Deadlock    bool
	Horizon     bool
	Panics      []string
	Blocked     []BlockedInfo // threads alive at the end (before abort)
	TraceHash   uint64        // hash of the sequence of (thread, op) executed
	Trace       []string      // only when Config.Trace
	ThreadNames map[int]string
	Stuck       bool // machinery problem: a thread did not reach a visible operation within the watchdog time
}

// Config of an execution.
type Config struct {
	Horizon  int
	Trace    bool
	Sites    bool
	SymSites []string // thread names (prefix) whose identity ignores spawn order
}

type runtimeT struct {
	cfg     Config
	reqCh   chan request
	threads []*Thread
	main    *Thread
	cur     *Thread
	strat   Strategy

	mutex   map[uintptr]*Thread
	rw      map[uintptr]*rwState
	cond    map[uintptr][]*Thread
	wg      map[uintptr]int64
	wgWait  map[uintptr][]*Thread
	timers  map[uintptr]*timerState
	now     int64
	objLast map[uintptr]uint64
	objID   map[uintptr]uint64

	step      int
	points    []Point
	traceHash uint64
	trace     []string
	ending    bool
}

var (
	rt      atomic.Pointer[runtimeT]
	current atomic.Pointer[Thread]
)

const clockObj = uintptr(1)

// gsync carries the one-directional edge threads -> S (S never releases towards threads).
var gsync byte

// Steps counts scheduler steps process-wide (progress monitor).
var Steps atomic.Int64

// Active reports whether a controlled execution is in progress.
func Active() bool { return rt.Load() != nil }

func mix(a, b uint64) uint64 {
	x := a ^ (b + 0x9e3779b97f4a7c15 + (a << 6) + (a >> 2))
	x ^= x >> 33
	x *= 0xff51afd7ed558ccd
	x ^= x >> 33
	x *= 0xc4ceb9fe1a85ec53
	x ^= x >> 33
	return x
}

func hashString(s string) uint64 {
	h := uint64(14695981039346656037)
	for i := 0; i < len(s); i++ {
		h ^= uint64(s[i])
		h *= 1099511628211
	}
	return h
}

// HashString is exported for shims and harnesses.
func HashString(s string) uint64 { return hashString(s) }

// chanClosed reads hchan.closed (go1.23 layout: qcount, dataqsiz uint; buf pointer; elemsize uint16; closed uint32).
// The layout is verified by selfTest at start-up.
//
//go:norace
//go:nocheckptr
func chanClosed(addr uintptr) bool {
	return *(*uint32)(unsafe.Pointer(addr + closedOffset)) != 0
}

var closedOffset uintptr

func init() { probeChanLayout() }

//go:nocheckptr
func probeChanLayout() {
	// find the offset of hchan.closed by closing a probe channel and looking for the word that flips
	for _, off := range []uintptr{28, 32} {
		c := make(chan int, 1)
		addr := *(*uintptr)(unsafe.Pointer(&c))
		before := *(*uint32)(unsafe.Pointer(addr + off))
		close(c)
		after := *(*uint32)(unsafe.Pointer(addr + off))
		if before == 0 && after == 1 {
			closedOffset = off
			break
		}
	}
	if closedOffset == 0 {
		panic("MACHINERY vsched: unknown hchan layout for this Go version")
	}
	c := make(chan int, 3)
	c <- 1
	addr := *(*uintptr)(unsafe.Pointer(&c))
	if n, k := chanLenCap(addr); n != 1 || k != 3 || chanClosed(addr) {
		panic("MACHINERY vsched: hchan layout self-test failed")
	}
}

//go:norace
//go:nocheckptr
func chanLenCap(addr uintptr) (int, int) {
	// hchan starts with qcount uint, dataqsiz uint
	p := (*[2]uint)(unsafe.Pointer(addr))
	return int(p[0]), int(p[1])
}

// Run executes body as the main thread under strategy st and returns the result.
func Run(cfg Config, st Strategy, body func()) *Result {
	executionGen.Add(1)
	splitCommit.Store(false)
	if cfg.Horizon == 0 {
		cfg.Horizon = 20000
	}
	r := &runtimeT{
		cfg:     cfg,
		reqCh:   make(chan request),
		strat:   st,
		mutex:   map[uintptr]*Thread{},
		rw:      map[uintptr]*rwState{},
		cond:    map[uintptr][]*Thread{},
		wg:      map[uintptr]int64{},
		wgWait:  map[uintptr][]*Thread{},
		timers:  map[uintptr]*timerState{},
		objLast: map[uintptr]uint64{},
		objID:   map[uintptr]uint64{},
	}
	if !rt.CompareAndSwap(nil, r) {
		panic("vsched: nested Run")
	}
	timerMu.Lock()
	timerChans = map[uintptr]chan time.Time{}
	timerMu.Unlock()
	defer rt.Store(nil)
	m := &Thread{name: "main", wake: make(chan response, 1)}
	r.setIdent(m, 0)
	r.main = m
	r.register(m)
	startThread(r, m, body) // outside the disabled region: the go statement is a real edge
	racectl.Disable()
	defer racectl.Enable()
	res := r.loop()
	return res
}

// setIdent gives t its schedule-independent identity (S-side).
func (r *runtimeT) setIdent(t *Thread, parentHash uint64) {
	sym := false
	for _, s := range r.cfg.SymSites {
		if strings.Contains(t.name, s) {
			sym = true
		}
	}
	if sym {
		t.ident = mix(hashString(t.name), 0x5157)
	} else {
		t.ident = mix(hashString(t.name), parentHash)
	}
	t.hash = t.ident
}

func (r *runtimeT) register(t *Thread) {
	t.id = len(r.threads)
	r.threads = append(r.threads, t)
	t.state = tsParked
	t.pend = request{t: t, kind: OpStart}
}

// startThread creates the goroutine; it parks until first scheduled.
func startThread(r *runtimeT, t *Thread, f func()) {
	go func() {
		racectl.Disable()
		resp := <-t.wake
		racectl.Enable()
		t.tid = int(resp.val)
		defer func() {
			if p := recover(); p != nil {
				t.panicked = true
				t.panicVal = fmt.Sprintf("%v\n%s", p, debug.Stack())
			}
			racectl.ReleaseMerge(unsafe.Pointer(&t.syncByte))
			racectl.ReleaseMerge(unsafe.Pointer(&gsync))
			racectl.Disable()
			r.reqCh <- request{t: t, kind: OpExit}
			racectl.Enable()
		}()
		if resp.abort {
			t.aborting = true
			return
		}
		f()
	}()
}

// do posts a visible operation and parks until it is scheduled.
func do(req request) response {
	r := rt.Load()
	if r == nil {
		panic("vsched: visible operation outside a controlled execution")
	}
	racectl.ReleaseMerge(unsafe.Pointer(&gsync))
	racectl.Disable()
	t := current.Load()
	if t == nil {
		panic("vsched: visible operation from an uncontrolled goroutine")
	}
	if t.aborting {
		racectl.Enable()
		return response{abort: true}
	}
	req.t = t
	if r.cfg.Sites {
		var pcs [1]uintptr
		runtime.Callers(3, pcs[:])
		req.site = pcs[0]
	}
	r.reqCh <- req
	resp := <-t.wake
	racectl.Enable()
	if resp.abort {
		t.aborting = true
		runtime.Goexit()
	}
	t.lastStep = resp.step
	if resp.fail != "" {
		panic(resp.fail)
	}
	return resp
}

func siteString(pc uintptr) string {
	if pc == 0 {
		return ""
	}
	f := runtime.FuncForPC(pc - 1)
	if f == nil {
		return ""
	}
	file, line := f.FileLine(pc - 1)
	if i := strings.LastIndexByte(file, '/'); i >= 0 {
		file = file[i+1:]
	}
	fn := f.Name()
	if i := strings.LastIndexByte(fn, '/'); i >= 0 {
		fn = fn[i+1:]
	}
	return fmt.Sprintf("%s:%d(%s)", file, line, fn)
}

type entry struct {
	t   *Thread // nil: clock
	alt int
}

func (r *runtimeT) chanReady(addr uintptr) bool {
	if addr == 0 {
		return false // a nil channel is never ready: the receiver blocks for ever, as in Go
	}
	if ts := r.timers[addr]; ts != nil && ts.fired {
		return true
	}
	if chanClosed(addr) {
		return true
	}
	n, _ := chanLenCap(addr)
	return n > 0
}

func (r *runtimeT) pendingWriter(addr uintptr) bool {
	for _, t := range r.threads {
		if t.state == tsParked && t.pend.kind == OpWLock && t.pend.obj == addr {
			return true
		}
	}
	return false
}

// enabledAlts returns the number of alternatives of t's pending op that are enabled (0 = blocked);
// for OpSelect it fills alts with the ready indices.
func (r *runtimeT) enabledAlts(t *Thread, alts *[maxSel]int) int {
	p := &t.pend
	switch p.kind {
	case OpLock:
		if r.mutex[p.obj] == nil {
			return 1
		}
		return 0
	case OpRLock:
		s := r.rw[p.obj]
		if (s == nil || s.writer == nil) && !r.pendingWriter(p.obj) {
			return 1
		}
		return 0
	case OpWLock:
		s := r.rw[p.obj]
		if s == nil || (s.writer == nil && s.readers == 0) {
			return 1
		}
		return 0
	case OpCondWait:
		switch t.phase {
		case 0:
			return 1
		case 1:
			return 0
		default:
			if r.mutex[p.obj2] == nil {
				return 1
			}
			return 0
		}
	case OpWGWait:
		// phase 0: the call itself (returns at once when the counter is zero, else enqueues as a waiter);
		// phase 1: blocked; phase 2: released by the Add that brought the counter to zero - as in sync, a
		// released waiter stays released whatever is added afterwards
		if t.phase != 1 {
			return 1
		}
		return 0
	case OpRecv:
		if r.chanReady(p.obj) {
			return 1
		}
		return 0
	case OpSend:
		if p.obj == 0 {
			return 0 // send on a nil channel blocks for ever
		}
		if chanClosed(p.obj) {
			return 1 // will panic in the thread, as the real send does
		}
		n, c := chanLenCap(p.obj)
		if n < c {
			return 1
		}
		return 0
	case OpSelect:
		k := 0
		for i := 0; i < p.nobjs; i++ {
			if r.chanReady(p.objs[i]) {
				alts[k] = i
				k++
			}
		}
		return k
	case OpSleep:
		if r.now >= t.deadline {
			return 1
		}
		return 0
	case OpQuiesce:
		return 0 // handled separately
	}
	return 1
}

func (r *runtimeT) clockPending() (int64, bool) {
	var min int64
	found := false
	for _, t := range r.threads {
		if t.state == tsParked && t.pend.kind == OpSleep && t.deadline > r.now {
			if !found || t.deadline < min {
				min, found = t.deadline, true
			}
		}
	}
	for _, ts := range r.timers {
		if ts.active && ts.deadline > r.now {
			if !found || ts.deadline < min {
				min, found = ts.deadline, true
			}
		}
	}
	return min, found
}

func (r *runtimeT) stateKey() uint64 {
	var k uint64
	for _, t := range r.threads {
		if t.state == tsDone {
			k += mix(t.ident, 0xdead)
		} else {
			k += mix(t.ident, mix(t.hash, uint64(t.phase)))
		}
	}
	if r.cur != nil {
		k = mix(k, r.cur.ident^r.cur.hash)
	}
	k = mix(k, uint64(r.now))
	return k
}

func (r *runtimeT) objHash(t *Thread, addr uintptr) uint64 {
	if addr == 0 {
		return 0
	}
	id, ok := r.objID[addr]
	if !ok {
		id = mix(t.hash, 0x0b1ec7)
		r.objID[addr] = id
		r.objLast[addr] = id
	}
	return mix(id, r.objLast[addr])
}

func (r *runtimeT) record(t *Thread, kind OpKind, alt int, objs ...uintptr) {
	h := mix(t.hash, uint64(kind)<<8|uint64(alt))
	for _, o := range objs {
		if o != 0 {
			h = mix(h, r.objHash(t, o))
		}
	}
	if t.pend.tag != 0 {
		h = mix(h, t.pend.tag)
	}
	t.hash = h
	for _, o := range objs {
		if o != 0 {
			r.objLast[o] = h
		}
	}
	r.traceHash = mix(r.traceHash, mix(uint64(t.id), uint64(kind)<<8|uint64(alt)))
	if r.cfg.Trace {
		s := fmt.Sprintf("%d T%d(%s) %s", r.step, t.id, t.name, kind)
		if alt != 0 {
			s += fmt.Sprintf(" alt=%d", alt)
		}
		if t.pend.site != 0 {
			s += " @" + siteString(t.pend.site)
		}
		r.trace = append(r.trace, s)
	}
}

// loop is the scheduler S.
func (r *runtimeT) loop() *Result {
	res := &Result{}
	running := false
	var alts [maxSel]int
	entries := make([]entry, 0, 16)
	for {
		if running {
			req := <-r.reqCh
			racectl.Enable()
			racectl.Acquire(unsafe.Pointer(&gsync))
			racectl.Disable()
			running = false
			t := req.t
			if req.kind == OpExit {
				t.state = tsDone
				if t.panicked {
					res.Panics = append(res.Panics, fmt.Sprintf("thread %s: %s", t.name, t.panicVal))
				}
				if t == r.main {
					return r.finish(res, true)
				}
			} else {
				t.state = tsParked
				t.pend = req
				t.phase = 0
				if req.kind == OpSleep {
					t.deadline = r.now + req.n
				}
			}
		}
		if r.step >= r.cfg.Horizon {
			res.Horizon = true
			return r.finish(res, true)
		}
		// compute enabled entries: running thread first, then ascending id, then clock
		entries = entries[:0]
		ncur := 0
		add := func(t *Thread) {
			n := r.enabledAlts(t, &alts)
			if t.pend.kind == OpSelect {
				for i := 0; i < n; i++ {
					entries = append(entries, entry{t, alts[i]})
				}
			} else if n > 0 {
				entries = append(entries, entry{t, 0})
			}
		}
		if r.cur != nil && r.cur.state == tsParked {
			add(r.cur)
			ncur = len(entries)
		}
		for _, t := range r.threads {
			if t != r.cur && t.state == tsParked {
				add(t)
			}
		}
		if len(entries) == 0 {
			// quiescence waiters become enabled only now
			if r.cur != nil && r.cur.state == tsParked && r.cur.pend.kind == OpQuiesce {
				entries = append(entries, entry{r.cur, 0})
				ncur = 1
			}
			for _, t := range r.threads {
				if t != r.cur && t.state == tsParked && t.pend.kind == OpQuiesce {
					entries = append(entries, entry{t, 0})
				}
			}
		}
		if _, ok := r.clockPending(); ok {
			entries = append(entries, entry{nil, 0})
		}
		if len(entries) == 0 {
			res.Deadlock = true
			return r.finish(res, true)
		}
		choice := 0
		if len(entries) > 1 {
			key := r.stateKey()
			choice = r.strat.Choose(len(entries), ncur, key)
			if choice < 0 {
				// strategy asks to abandon this execution (pruned)
				res.Horizon = false
				r.points = append(r.points, Point{N: len(entries), NCur: ncur, Chosen: -1, Key: key, Step: r.step})
				return r.finish(res, true)
			}
			if choice >= len(entries) {
				panic(fmt.Sprintf("vsched: choice %d out of range %d (replay divergence)", choice, len(entries)))
			}
			r.points = append(r.points, Point{N: len(entries), NCur: ncur, Chosen: choice, Key: key, Step: r.step})
		}
		e := entries[choice]
		r.step++
		Steps.Add(1)
		if e.t == nil {
			d, _ := r.clockPending()
			r.now = d
			for _, ts := range r.timers {
				if ts.active && ts.deadline <= r.now {
					ts.fired = true
					ts.active = false
				}
			}
			r.traceHash = mix(r.traceHash, 0xc10c)
			r.objLast[clockObj] = mix(r.objLast[clockObj], uint64(d))
			if r.cfg.Trace {
				r.trace = append(r.trace, fmt.Sprintf("%d clock -> %v", r.step, time.Duration(d)))
			}
			continue
		}
		t := e.t
		resp := response{step: r.step, alt: e.alt}
		wake := true
		p := &t.pend
		switch p.kind {
		case OpStart:
			resp.val = int64(t.id)
			r.record(t, p.kind, 0)
		case OpYield, OpQuiesce:
			r.record(t, p.kind, 0)
		case OpEmit:
			r.record(t, p.kind, 0, p.obj)
		case OpSpawn:
			r.record(t, p.kind, 0)
			c := p.child
			r.setIdent(c, t.hash)
			r.register(c)
		case OpLock:
			r.mutex[p.obj] = t
			r.record(t, p.kind, 0, p.obj)
		case OpTryLock:
			if r.mutex[p.obj] == nil {
				r.mutex[p.obj] = t
				resp.flag = true
			}
			r.record(t, p.kind, 0, p.obj)
		case OpUnlock:
			if r.mutex[p.obj] == nil {
				resp.fail = "sync: unlock of unlocked mutex"
			}
			delete(r.mutex, p.obj)
			r.record(t, p.kind, 0, p.obj)
		case OpRLock:
			s := r.rw[p.obj]
			if s == nil {
				s = &rwState{}
				r.rw[p.obj] = s
			}
			s.readers++
			r.record(t, p.kind, 0, p.obj)
		case OpRUnlock:
			s := r.rw[p.obj]
			if s == nil || s.readers == 0 {
				resp.fail = "sync: RUnlock of unlocked RWMutex"
			} else {
				s.readers--
			}
			r.record(t, p.kind, 0, p.obj)
		case OpWLock:
			s := r.rw[p.obj]
			if s == nil {
				s = &rwState{}
				r.rw[p.obj] = s
			}
			s.writer = t
			r.record(t, p.kind, 0, p.obj)
		case OpWUnlock:
			s := r.rw[p.obj]
			if s == nil || s.writer == nil {
				resp.fail = "sync: Unlock of unlocked RWMutex"
			} else {
				s.writer = nil
			}
			r.record(t, p.kind, 0, p.obj)
		case OpCondWait:
			if t.phase == 0 {
				if r.mutex[p.obj2] == nil {
					resp.fail = "sync: unlock of unlocked mutex"
					r.record(t, p.kind, 0, p.obj, p.obj2)
					break
				}
				delete(r.mutex, p.obj2)
				r.cond[p.obj] = append(r.cond[p.obj], t)
				t.phase = 1
				r.record(t, p.kind, 0, p.obj, p.obj2)
				wake = false
			} else {
				r.mutex[p.obj2] = t
				r.record(t, p.kind, 2, p.obj, p.obj2)
			}
		case OpCondSignal:
			if w := r.cond[p.obj]; len(w) > 0 {
				w[0].phase = 2
				r.cond[p.obj] = w[1:]
			}
			r.record(t, p.kind, 0, p.obj)
		case OpCondBroadcast:
			for _, w := range r.cond[p.obj] {
				w.phase = 2
			}
			delete(r.cond, p.obj)
			r.record(t, p.kind, 0, p.obj)
		case OpWGAdd:
			v := r.wg[p.obj] + p.n
			if v < 0 {
				resp.fail = "sync: negative WaitGroup counter"
				v = 0
			}
			r.wg[p.obj] = v
			if v == 0 {
				for _, w := range r.wgWait[p.obj] {
					w.phase = 2
				}
				delete(r.wgWait, p.obj)
			}
			r.record(t, p.kind, 0, p.obj)
		case OpWGWait:
			switch {
			case t.phase == 0 && r.wg[p.obj] != 0:
				r.wgWait[p.obj] = append(r.wgWait[p.obj], t)
				t.phase = 1
				r.record(t, p.kind, 0, p.obj)
				wake = false
			case t.phase == 2 && r.wg[p.obj] != 0:
				resp.fail = "sync: WaitGroup is reused before previous Wait has returned"
				r.record(t, p.kind, 2, p.obj)
			default:
				r.record(t, p.kind, int(t.phase), p.obj)
			}
		case OpAtomicLoad, OpAtomicStore:
			r.record(t, p.kind, 0, p.obj)
		case OpRecv:
			if ts := r.timers[p.obj]; ts != nil && ts.fired {
				ts.fired = false
				resp.flag = true
				resp.val = r.now
			}
			r.record(t, p.kind, 0, p.obj, clockObjIf(resp.flag))
		case OpSend, OpTouch:
			r.record(t, p.kind, 0, p.obj)
		case OpClose:
			r.record(t, p.kind, 0, p.obj)
		case OpSelect:
			o := p.objs[e.alt]
			if ts := r.timers[o]; ts != nil && ts.fired {
				ts.fired = false
				resp.flag = true
				resp.val = r.now
			}
			r.record(t, p.kind, e.alt+1, o, clockObjIf(resp.flag))
		case OpSleep:
			r.record(t, p.kind, 0, clockObj)
		case OpNow:
			resp.val = r.now
			r.record(t, p.kind, 0, clockObj)
		case OpTimerNew:
			// (re)arm the timer on this channel. A value that an earlier expiry left in the channel stays
			// there: the pre-Go-1.23 timer semantics, which a program whose main module declares go < 1.23
			// (go-res itself declares 1.18) still gets; they are a superset of the newer behaviour.
			stale := false
			if ts := r.timers[p.obj]; ts != nil {
				stale = ts.fired
			}
			r.timers[p.obj] = &timerState{deadline: r.now + p.n, active: true, fired: stale}
			if p.n <= 0 {
				r.timers[p.obj].fired = true
				r.timers[p.obj].active = false
			}
			r.record(t, p.kind, 0, p.obj, clockObj)
		case OpTimerStop:
			if ts := r.timers[p.obj]; ts != nil {
				resp.flag = ts.active
				ts.active = false
				// an expiry already delivered to the channel is not taken back
			}
			r.record(t, p.kind, 0, p.obj, clockObj)
		default:
			panic("vsched: unknown op")
		}
		if wake {
			r.cur = t
			t.state = tsRunning
			current.Store(t)
			t.wake <- resp
			running = true
		} else {
			r.cur = t
		}
	}
}

func clockObjIf(b bool) uintptr {
	if b {
		return clockObj
	}
	return 0
}

// finish aborts all remaining threads, joins them and assembles the result.
func (r *runtimeT) finish(res *Result, unwind bool) *Result {
	res.ThreadNames = map[int]string{}
	for _, t := range r.threads {
		res.ThreadNames[t.id] = t.name
		if t.state == tsParked || t.state == tsRunning {
			if t.pend.kind == OpStart {
				// never ran
			}
			res.Blocked = append(res.Blocked, BlockedInfo{ID: t.id, Name: t.name, Op: t.pend.kind.String(), Phase: t.phase, Site: siteString(t.pend.site)})
		}
	}
	if unwind {
		all := append([]*Thread{}, r.threads...)
		for _, t := range r.threads {
			if t.state == tsParked && t.pend.kind == OpSpawn && t.pend.child.state == tsNew {
				c := t.pend.child
				c.state = tsParked
				all = append(all, c)
			}
		}
		for _, t := range all {
			if t.state != tsParked {
				continue
			}
			current.Store(t)
			t.wake <- response{abort: true}
			// the thread may run deferred code that posts further (ignored) requests? No: do() returns
			// immediately when aborting. Wait for its exit.
			for {
				req := <-r.reqCh
				if req.kind == OpExit && req.t == t {
					break
				}
			}
			racectl.Enable()
			racectl.Acquire(unsafe.Pointer(&gsync))
			racectl.Disable()
			t.state = tsDone
			if t.panicked {
				res.Panics = append(res.Panics, fmt.Sprintf("thread %s (during unwind): %s", t.name, t.panicVal))
			}
		}
		racectl.Enable()
		for _, t := range all {
			racectl.Acquire(unsafe.Pointer(&t.syncByte))
			res.Events = append(res.Events, t.events...)
		}
		racectl.Disable()
		sort.SliceStable(res.Events, func(i, j int) bool { return res.Events[i].Step < res.Events[j].Step })
	}
	res.Points = r.points
	res.Steps = r.step
	res.TraceHash = r.traceHash
	res.Trace = r.trace
	current.Store(nil)
	return res
}

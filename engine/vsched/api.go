package vsched

import (
	"reflect"
	"sync"
	"sync/atomic"
	"time"
	"unsafe"

	"verif/vsched/racectl"
)

// Go starts f as a new controlled thread. Outside a controlled execution it is a plain go statement.
func Go(name string, f func()) {
	r := rt.Load()
	if r == nil {
		go f()
		return
	}
	c := &Thread{name: name, wake: make(chan response, 1)}
	startThread(r, c, f)
	do(request{kind: OpSpawn, child: c})
}

// Yield is a pure scheduling point.
func Yield() {
	if rt.Load() == nil {
		return
	}
	do(request{kind: OpYield})
}

func monitorObj(monitor string) uintptr {
	return uintptr(hashString(monitor)|1<<63) | 1
}

// Emit records an observation in the calling thread's buffer; it is a scheduling point and counts as
// a write on the named monitor object.
func Emit(monitor, text string) {
	if rt.Load() == nil {
		return
	}
	resp := do(request{kind: OpEmit, obj: monitorObj(monitor), tag: hashString(text) | 1})
	if resp.abort {
		return
	}
	t := current.Load()
	t.events = append(t.events, Event{Step: resp.step, Thread: t.tid, Monitor: monitor, Text: text})
}

// Note records an observation without a scheduling point of its own (stamped with the thread's last step).
func Note(monitor, text string) {
	if rt.Load() == nil {
		return
	}
	t := current.Load()
	if t == nil || t.aborting {
		return
	}
	step := 0
	if n := len(t.events); n > 0 {
		step = t.events[n-1].Step
	}
	if t.lastStep > step {
		step = t.lastStep
	}
	t.events = append(t.events, Event{Step: step, Thread: t.tid, Monitor: monitor, Text: text, Note: true})
}

// AwaitQuiescence blocks until no other thread is enabled.
func AwaitQuiescence() {
	do(request{kind: OpQuiesce})
}

// ThreadID returns the id of the calling thread (-1 outside).
func ThreadID() int {
	if rt.Load() == nil {
		return -1
	}
	t := current.Load()
	if t == nil {
		return -1
	}
	return t.tid
}

// --- primitives used by the shims ---

func MutexLock(p unsafe.Pointer) {
	do(request{kind: OpLock, obj: uintptr(p)})
	racectl.Acquire(p)
}

func MutexTryLock(p unsafe.Pointer) bool {
	r := do(request{kind: OpTryLock, obj: uintptr(p)})
	if r.flag {
		racectl.Acquire(p)
	}
	return r.flag
}

func MutexUnlock(p unsafe.Pointer) {
	racectl.Release(p)
	do(request{kind: OpUnlock, obj: uintptr(p)})
}

// RW: p is the object identity, rsem/wsem the two annotation addresses.
func RWRLock(p, rsem unsafe.Pointer) {
	do(request{kind: OpRLock, obj: uintptr(p)})
	racectl.Acquire(rsem)
}

func RWRUnlock(p, wsem unsafe.Pointer) {
	racectl.ReleaseMerge(wsem)
	do(request{kind: OpRUnlock, obj: uintptr(p)})
}

func RWLock(p, rsem, wsem unsafe.Pointer) {
	do(request{kind: OpWLock, obj: uintptr(p)})
	racectl.Acquire(rsem)
	racectl.Acquire(wsem)
}

func RWUnlock(p, rsem unsafe.Pointer) {
	racectl.Release(rsem)
	do(request{kind: OpWUnlock, obj: uintptr(p)})
}

// CondWait releases l, waits for a signal and re-acquires l.
func CondWait(c, l unsafe.Pointer) {
	racectl.Release(l)
	do(request{kind: OpCondWait, obj: uintptr(c), obj2: uintptr(l)})
	racectl.Acquire(l)
}

func CondSignal(c unsafe.Pointer)    { do(request{kind: OpCondSignal, obj: uintptr(c)}) }
func CondBroadcast(c unsafe.Pointer) { do(request{kind: OpCondBroadcast, obj: uintptr(c)}) }

func WGAdd(p unsafe.Pointer, n int) {
	if n < 0 {
		racectl.ReleaseMerge(p)
	}
	do(request{kind: OpWGAdd, obj: uintptr(p), n: int64(n)})
}

func WGWait(p unsafe.Pointer) {
	do(request{kind: OpWGWait, obj: uintptr(p)})
	racectl.Acquire(p)
}

// AtomicPoint is the scheduling point before an atomic operation on p.
func AtomicPoint(p unsafe.Pointer, write bool) {
	if rt.Load() == nil {
		return
	}
	k := OpAtomicLoad
	if write {
		k = OpAtomicStore
	}
	do(request{kind: k, obj: uintptr(p)})
}

// AfterAtomic is a scheduling point right after an atomic load or compare-and-swap: the thread may be
// preempted between reading the value and acting on it.
func AfterAtomic(p unsafe.Pointer) {
	if rt.Load() == nil {
		return
	}
	do(request{kind: OpYield})
}

func chanAddr(ch any) uintptr {
	return reflect.ValueOf(ch).Pointer()
}

// WaitRecv blocks until a receive on ch cannot block. If ch is a fired virtual timer channel the value is
// placed into it first.
func WaitRecv(ch any) {
	if rt.Load() == nil {
		return
	}
	r := do(request{kind: OpRecv, obj: chanAddr(ch)})
	if r.flag {
		fillTimer(ch, r.val)
	}
}

// WaitSend blocks until a send on ch cannot block.
func WaitSend(ch any) {
	if rt.Load() == nil {
		return
	}
	do(request{kind: OpSend, obj: chanAddr(ch)})
}

// Close is the scheduling point before close(ch); the caller closes the channel afterwards.
func Close(ch any) {
	if rt.Load() == nil {
		return
	}
	do(request{kind: OpClose, obj: chanAddr(ch)})
}

// SelectRecv blocks until one of the channels is ready for receive and returns its index; which ready
// channel is taken is a scheduler choice.
func SelectRecv(chs ...any) int {
	if rt.Load() == nil {
		// outside a controlled execution: wait (really) until one is ready, without consuming it
		for {
			for i, c := range chs {
				if reflect.ValueOf(c).Len() > 0 {
					return i
				}
			}
			time.Sleep(time.Millisecond)
		}
	}
	if len(chs) > maxSel {
		panic("vsched: select with too many cases")
	}
	req := request{kind: OpSelect, nobjs: len(chs)}
	for i, c := range chs {
		req.objs[i] = chanAddr(c)
	}
	r := do(req)
	if r.flag {
		fillTimer(chs[r.alt], r.val)
	}
	return r.alt
}

// Epoch is virtual time zero.
var Epoch = time.Date(2020, 1, 1, 0, 0, 0, 0, time.UTC)

var (
	timerMu    sync.Mutex
	timerChans = map[uintptr]chan time.Time{}
)

func fillTimer(ch any, now int64) {
	timerMu.Lock()
	c := timerChans[chanAddr(ch)]
	timerMu.Unlock()
	if c == nil {
		panic("vsched: fired timer on an unregistered channel")
	}
	select {
	case c <- Epoch.Add(time.Duration(now)):
	default:
	}
}

// Now returns the virtual time.
func Now() time.Time {
	if rt.Load() == nil {
		return time.Now()
	}
	r := do(request{kind: OpNow})
	return Epoch.Add(time.Duration(r.val))
}

// Sleep blocks until the virtual clock has advanced by d.
func Sleep(d time.Duration) {
	if rt.Load() == nil {
		time.Sleep(d)
		return
	}
	if d <= 0 {
		Yield()
		return
	}
	do(request{kind: OpSleep, n: int64(d)})
}

// TimerNew registers a virtual timer on channel c (cap 1) that fires after d.
func TimerNew(c chan time.Time, d time.Duration) {
	timerMu.Lock()
	timerChans[chanAddr(c)] = c
	timerMu.Unlock()
	do(request{kind: OpTimerNew, obj: chanAddr(c), n: int64(d)})
}

// TimerStop deactivates the timer on c and reports whether it was still pending.
func TimerStop(c chan time.Time) bool {
	r := do(request{kind: OpTimerStop, obj: chanAddr(c)})
	return r.flag
}

// Touch is an always-enabled scheduling point that counts as an access to channel ch (used before a
// non-blocking send performed by the environment model).
func Touch(ch any) {
	if rt.Load() == nil {
		return
	}
	do(request{kind: OpTouch, obj: chanAddr(ch)})
}

// Send is WaitSend followed by the real send.
func Send[T any](ch chan T, v T) {
	WaitSend(ch)
	ch <- v
}

// Recv is WaitRecv followed by the real receive.
func Recv[T any](ch chan T) T {
	WaitRecv(ch)
	return <-ch
}

// DBPoint is the scheduling point before a call on an (uninstrumented) database handle; the call itself
// then runs as one atomic step. All calls on one handle are mutually dependent.
func DBPoint[T any](db T) T {
	if rt.Load() == nil {
		return db
	}
	do(request{kind: OpTouch, obj: reflect.ValueOf(db).Pointer()})
	return db
}

var splitCommit atomic.Bool

// SplitCommit asks for a second scheduling point in every read-write database transaction of the current
// execution, between the return of the transaction closure and the commit (off at the start of every
// execution). With it a defect that needs another thread to run in that window becomes reachable.
func SplitCommit(on bool) { splitCommit.Store(on) }

// TxnFn wraps the closure of db.Update (rewriter rule R8b).
func TxnFn[D any, T any](db D, fn func(T) error) func(T) error {
	if rt.Load() == nil || !splitCommit.Load() {
		return fn
	}
	obj := reflect.ValueOf(db).Pointer()
	return func(t T) error {
		err := fn(t)
		do(request{kind: OpTouch, obj: obj})
		return err
	}
}

var executionGen atomic.Uint64

// ExecutionGen changes with every controlled execution (Run); shims use it to drop state cached in
// package-level variables of the code under test.
func ExecutionGen() uint64 { return executionGen.Load() }

package vsched

import (
	"fmt"
	"os"
	"runtime"
	"time"
)

// Violation found by an oracle, with the choice list that reproduces it.
type Violation struct {
	Desc    string
	Choices []int
	Events  []Event
	Trace   []string
}

// Explorer is a stateless, preemption-bounded depth-first search over the choice tree of Body.
type Explorer struct {
	Cfg     Config
	Bound   int // maximum number of preemptions; <0 = unbounded
	Body    func()
	Check   func(*Result) []string // oracle on one complete execution
	Cache   bool                   // happens-before state caching (DESIGN.md 2.2)
	Shard   int
	NShards int
	MaxExec int64
	Until   time.Time

	// statistics
	Execs      int64
	Pruned     int64
	StepsTotal int64
	Deadlocks  int64
	Horizons   int64
	MaxPoints  int
	MaxPreempt int
	Capped     bool
	cache      map[uint64]int32
	Outcomes   map[uint64]int64
	Violations []Violation
	MaxViol    int
	Sample     []Event
	// KeepSamples keeps, per distinct outcome, the events and choice list of the first execution that produced it.
	KeepSamples bool
	Samples     map[uint64]Violation
}

type dfsStrategy struct {
	ex      *Explorer
	prefix  []int
	pos     int
	preempt int
	bound   int
	choices []int
	pruned  bool
}

func (s *dfsStrategy) Choose(n, ncur int, key uint64) int {
	i := s.pos
	s.pos++
	c := 0
	if i < len(s.prefix) {
		c = s.prefix[i]
		if c >= n {
			panic(fmt.Sprintf("vsched: replay divergence at choice %d: %d alternatives, wanted %d", i, n, c))
		}
	} else if s.ex != nil {
		rem := int32(s.bound - s.preempt)
		v, ok := s.ex.cache[key]
		if ok && v >= rem && s.ex.Cache {
			s.pruned = true
			return -1
		}
		if !ok || v < rem {
			s.ex.cache[key] = rem
		}
	}
	if ncur > 0 && c >= ncur {
		s.preempt++
	}
	s.choices = append(s.choices, c)
	return c
}

type frame struct {
	choices []int
	pts     []Point
	pre     []int // preemptions before point i
	i       int
	alt     int
	depth   int
}

func outcomeHash(r *Result) uint64 {
	h := uint64(1469598103934665603)
	var notes uint64
	for _, e := range r.Events {
		if e.Note {
			notes += mix(hashString(e.Text), 0x907e) // order-insensitive; thread ids depend on creation order
			continue
		}
		h = mix(h, hashString(e.Monitor))
		h = mix(h, hashString(e.Text))
	}
	h = mix(h, notes)
	if r.Deadlock {
		h = mix(h, 0xdead10c)
	}
	h = mix(h, uint64(len(r.Panics)))
	return h
}

func (ex *Explorer) bound() int {
	if ex.Bound < 0 {
		return 1 << 20
	}
	return ex.Bound
}

// RunOne executes Body once following choices (then default choices) and returns the result.
func (ex *Explorer) RunOne(choices []int, trace bool) (*Result, []int) {
	st := &dfsStrategy{prefix: choices, bound: ex.bound()}
	cfg := ex.Cfg
	if trace {
		cfg.Trace = true
		cfg.Sites = true
	}
	r := Run(cfg, st, ex.Body)
	return r, st.choices
}

func (ex *Explorer) runPrefix(prefix []int) (*Result, *dfsStrategy) {
	st := &dfsStrategy{ex: ex, prefix: prefix, bound: ex.bound()}
	r := Run(ex.Cfg, st, ex.Body)
	ex.Execs++
	if os.Getenv("VX_DEBUG") != "" && ex.Execs%5000 == 0 {
		var ms runtime.MemStats
		runtime.ReadMemStats(&ms)
		fmt.Fprintf(os.Stderr, "execs=%d goroutines=%d heap=%dMB stack=%d cache=%d outcomes=%d\n", ex.Execs, runtime.NumGoroutine(), ms.HeapAlloc>>20, 0, len(ex.cache), len(ex.Outcomes))
	}
	ex.StepsTotal += int64(r.Steps)
	return r, st
}

func (ex *Explorer) judge(r *Result, st *dfsStrategy) {
	if st.pruned {
		ex.Pruned++
		return
	}
	if r.Deadlock {
		ex.Deadlocks++
	}
	if r.Horizon {
		ex.Horizons++
	}
	if len(st.choices) > ex.MaxPoints {
		ex.MaxPoints = len(st.choices)
	}
	if st.preempt > ex.MaxPreempt {
		ex.MaxPreempt = st.preempt
	}
	oh := outcomeHash(r)
	ex.Outcomes[oh]++
	if ex.KeepSamples && ex.Outcomes[oh] == 1 {
		if ex.Samples == nil {
			ex.Samples = map[uint64]Violation{}
		}
		ex.Samples[oh] = Violation{Choices: append([]int{}, st.choices...), Events: r.Events}
	}
	if ex.Sample == nil {
		ex.Sample = r.Events
	}
	if r.Stuck {
		panic("MACHINERY: stuck thread")
	}
	for _, d := range ex.Check(r) {
		if ex.MaxViol == 0 || len(ex.Violations) < ex.MaxViol {
			ex.Violations = append(ex.Violations, Violation{Desc: d, Choices: append([]int{}, st.choices...), Events: r.Events})
		}
	}
}

func (ex *Explorer) newFrame(r *Result, st *dfsStrategy, prefixLen, depth int) *frame {
	f := &frame{choices: st.choices, pts: r.Points, i: prefixLen, alt: 1, depth: depth}
	f.pre = make([]int, len(st.choices)+1)
	p := 0
	for i, c := range st.choices {
		f.pre[i] = p
		pt := r.Points[i]
		if pt.NCur > 0 && c >= pt.NCur {
			p++
		}
	}
	f.pre[len(st.choices)] = p
	return f
}

// Explore runs the search to completion (or to a cap) and reports whether it was exhaustive.
func (ex *Explorer) Explore() bool {
	if ex.NShards == 0 {
		ex.NShards = 1
	}
	ex.cache = map[uint64]int32{}
	ex.Outcomes = map[uint64]int64{}
	bound := ex.bound()
	r, st := ex.runPrefix(nil)
	if ex.Shard == 0 {
		ex.judge(r, st)
	}
	stack := []*frame{ex.newFrame(r, st, 0, 0)}
	var counter int64
	for len(stack) > 0 {
		if (ex.MaxExec > 0 && ex.Execs >= ex.MaxExec) || (!ex.Until.IsZero() && ex.Execs%64 == 0 && time.Now().After(ex.Until)) {
			ex.Capped = true
			return false
		}
		if ex.MaxViol > 0 && len(ex.Violations) >= ex.MaxViol {
			ex.Capped = true
			return false
		}
		f := stack[len(stack)-1]
		// next candidate
		if f.i >= len(f.choices) {
			stack = stack[:len(stack)-1]
			continue
		}
		pt := f.pts[f.i]
		if f.alt >= pt.N {
			f.i++
			f.alt = 1
			continue
		}
		alt := f.alt
		f.alt++
		if alt == f.choices[f.i] {
			continue
		}
		cost := f.pre[f.i]
		if pt.NCur > 0 && alt >= pt.NCur {
			cost++
		}
		if cost > bound {
			continue
		}
		depth := f.depth + 1
		mine := true
		if depth == 2 {
			mine = counter%int64(ex.NShards) == int64(ex.Shard)
			counter++
		}
		if !mine {
			continue
		}
		prefix := append(append(make([]int, 0, f.i+1), f.choices[:f.i]...), alt)
		r, st := ex.runPrefix(prefix)
		if depth >= 2 || ex.Shard == 0 {
			ex.judge(r, st)
		} else if st.pruned {
			ex.Pruned++
		}
		if len(st.choices) < len(prefix) {
			// the execution ended (pruned or finished) inside the prefix: nothing to expand
			continue
		}
		stack = append(stack, ex.newFrame(r, st, len(prefix), depth))
	}
	return true
}

// States returns the number of distinct happens-before state keys seen.
func (ex *Explorer) States() int { return len(ex.cache) }

"""Which explorations decide which property (DESIGN.md section 4), and how shard outputs become evidence."""

CFG_DEFAULT = "w2-in4-default-direct"


def cfg_axis():
    """One axis at a time around the default (DESIGN.md section 4, common cfg axis)."""
    out = []
    for w in (1, 2, 3):
        out.append("w%d-in4-default-direct" % w)
    for i in (1, 2):
        out.append("w2-in%d-default-direct" % i)
    for g in ("literal", "tagged", "parallel"):
        out.append("w2-in4-%s-direct" % g)
    for r in ("mount", "route"):
        out.append("w2-in4-default-%s" % r)
    out.append("w1-in1-tagged-route")
    return out


def explore(scen, cfg, bound, shards=1, cache=True, race=False, timeout=None, maxviol=20):
    ts = []
    for i in range(shards):
        argv = ["explore", "-scen", scen, "-cfg", cfg, "-bound", str(bound), "-shard", "%d/%d" % (i, shards),
                "-cache=%s" % ("true" if cache else "false"), "-maxviol", str(maxviol)]
        if timeout:
            argv += ["-timeout", timeout]
        ts.append({"kind": "explore", "argv": argv, "race": race, "group": "%s/%s/b%s" % (scen, cfg, bound)})
    return ts


def seq(check, tier, shards=1, extra=None, race=False):
    ts = []
    for i in range(shards):
        argv = ["seq", "-check", check, "-tier", tier, "-shard", "%d/%d" % (i, shards)] + (extra or [])
        # internal deadline: a capped enumeration is reported as exhaustive:false, never as a verdict
        argv += ["-timeout", "5m" if tier == "quick" else "15m"]
        ts.append({"kind": "seq", "argv": argv, "group": check, "race": race})
    return ts


# ---------------------------------------------------------------------------------------------
# C01 / C02 / C03

def tasks_c01(tier, seed):
    ts = []
    alt = "w1-in1-tagged-route"
    if tier == "quick":
        ts += explore("Q1s", CFG_DEFAULT, 2, shards=12, timeout="100s")
        for c in cfg_axis():
            if c != CFG_DEFAULT:
                ts += explore("Q1s", c, 1, shards=1, timeout="60s")
        ts += explore("Q2", CFG_DEFAULT, 2) + explore("Q2", alt, 2)
        ts += explore("Q7", "w1-in4-default-direct", 2, shards=2, timeout="60s") + explore("Q7", CFG_DEFAULT, 1, timeout="60s")
        ts += explore("Q3", CFG_DEFAULT, 1, timeout="60s") + explore("Q3", alt, 2, shards=4, timeout="60s")
        ts += explore("Q6", alt, 2, shards=6, timeout="100s") + explore("Q6", "w1-in4-default-direct", 1, shards=2, timeout="60s")
        ts += explore("Q1", CFG_DEFAULT, 0, shards=1, timeout="60s")
        # nested submissions: a callback is itself a producer for its own and another group
        ts += explore("Q8", "w1-in4-default-direct", 2, timeout="60s") + explore("Q8", alt, 2, timeout="60s") + explore("Q8", CFG_DEFAULT, 1, shards=2, timeout="60s")
        # a backlog of 36 callbacks on one group while another group waits and a further submission arrives
        ts += explore("Q9", "w1-in4-default-direct", 2, shards=2, timeout="60s") + explore("Q9", CFG_DEFAULT, 1, shards=4, timeout="60s")
        # two patterns sharing one ${tag} group template with the tag at different positions
        ts += explore("Q11", "w2-in4-tagged-direct", 1, timeout="60s") + explore("Q11", alt, 2, timeout="60s")
        # 300 callbacks queued on one group, another group waiting, a further submission from inside the 130th
        ts += explore("Q12", "w1-in4-default-direct", 1, timeout="60s") + explore("Q12", CFG_DEFAULT, 0, timeout="60s")
        # a chain of 700 callbacks each submitting the next one to its own group (the group is never idle)
        ts += explore("Q10", "w1-in4-default-direct", 1, timeout="60s") + explore("Q10", CFG_DEFAULT, 0, timeout="60s")
        # a second Serve as soon as Shutdown has returned, with a callback of the first epoch still to finish
        ts += explore("S13b", "w1-in4-default-direct", 2, timeout="60s")
        # Q5: query requests, expiry and a concurrent callback of the same (non-default) group
        ts += explore("QEconc", CFG_DEFAULT, 1, shards=8, timeout="100s") + explore("QE1-model", CFG_DEFAULT, 1, shards=2, timeout="100s")
        # expiry while Shutdown waits for a callback of the same group; restart after Shutdown dropped queued work
        ts += explore("QEshutdownBusy", "w1-in4-default-direct", 2, shards=4, timeout="100s")
        ts += explore("S8", "w1-in4-default-direct", 2, shards=1, timeout="100s") + explore("S8r", "w1-in4-default-direct", 2, shards=2, timeout="100s")
    else:
        T = "5m"
        for c in cfg_axis():
            ts += explore("Q1s", c, 2, shards=8, timeout=T)
            ts += explore("Q2", c, 3, shards=2, timeout=T)
        for c in (CFG_DEFAULT, alt, "w3-in1-literal-mount"):
            ts += explore("Q3", c, 2, shards=8, timeout=T)
            ts += explore("Q7", c, 2, shards=4, timeout=T)
        ts += explore("Q6", alt, 2, shards=4, timeout=T) + explore("Q6", "w1-in4-default-direct", 2, shards=8, timeout=T)
        ts += explore("Q6", CFG_DEFAULT, 1, shards=8, timeout=T)
        ts += explore("Q1", CFG_DEFAULT, 1, shards=16, timeout=T)
        for c in (CFG_DEFAULT, alt, "w3-in1-literal-mount"):
            ts += explore("Q8", c, 2, shards=4, timeout=T)
        ts += explore("Q9", "w1-in4-default-direct", 3, shards=4, timeout=T) + explore("Q9", CFG_DEFAULT, 2, shards=8, timeout=T)
        ts += explore("S13b", "w1-in4-default-direct", 3, shards=4, timeout=T) + explore("S13b", CFG_DEFAULT, 2, shards=16, timeout=T)
        ts += explore("Q1s", "w1-in4-default-direct", 3, shards=16, timeout=T)
        ts += explore("QEconc", CFG_DEFAULT, 2, shards=16, timeout=T) + explore("QE1-model", CFG_DEFAULT, 2, shards=8, timeout=T)
        for sc in ("QEshutdownBusy", "S8", "S8r"):
            ts += explore(sc, "w1-in4-default-direct", 3, shards=8, timeout=T) + explore(sc, CFG_DEFAULT, 2, shards=8, timeout=T)
    return ts


def tasks_c03(tier, seed):
    ts = seq("c03s", tier, shards=4)
    scens = ["S1", "S2", "S2u", "S3Reset", "S3ResetAll", "S3TokenEvent", "S3TokenEventWithID", "S3TokenReset", "S3Reaccess", "S3DeleteEv", "S3CustomNil", "S4", "S4q", "S6", "S7", "S8", "S8r", "S9",
             "S10", "S11", "S12", "S13", "S13b", "Q6", "QEshutdown", "QEshutdownBusy"]
    if tier == "quick":
        for s in scens:
            big = s in ("S1", "S2", "Q6", "S8r", "QEshutdownBusy", "S9")
            ts += explore(s, "w1-in4-default-direct", 2, shards=4 if big else 1, timeout="100s")
            if s in ("QEshutdownBusy", "S8", "S8r"):
                continue  # two workers: thorough tier only (more than a million schedules at bound 1)
            if s == "S13b":
                continue  # two workers: thorough tier only
            if s in ("S4q", "S9", "S12", "S13", "S6", "QEshutdown"):
                ts += explore(s, CFG_DEFAULT, 1, shards=2, timeout="100s")
            elif s != "Q6":
                ts += explore(s, CFG_DEFAULT, 1 if big else 2, shards=2 if big else 1, timeout="100s")
    else:
        for s in scens:
            ts += explore(s, "w1-in4-default-direct", 3, shards=8, timeout="5m")
            ts += explore(s, CFG_DEFAULT, 1 if s == "Q6" else 2, shards=8, timeout="5m")
            if s.startswith("S3") or s in ("S4", "S4q", "S7", "S10", "S11"):
                ts += explore(s, "w3-in1-literal-mount", 2, shards=4, timeout="5m")
    return ts


def tasks_c04(tier, seed):
    # c07: every reply method x value shape (among them a marshaler that panics in the middle of the reply)
    ts = seq("c04", tier, shards=16) + seq("c07", tier, shards=4)
    # requests to a restarted service (Shutdown dropped queued work of the same resource)
    if tier == "quick":
        ts += explore("S8r", "w1-in4-default-direct", 2, shards=2, timeout="100s")
        # more queued work items than the work buffer holds (in-channel size 1, one worker)
        ts += explore("Q3", "w1-in1-tagged-route", 2, shards=4, timeout="60s")
        ts += explore("S13", "w1-in4-default-direct", 2, timeout="60s")
    else:
        ts += explore("Q3", "w1-in1-tagged-route", 3, shards=8, timeout="5m") + explore("Q3", "w2-in1-default-direct", 2, shards=8, timeout="5m")
        ts += explore("S13", "w1-in4-default-direct", 3, shards=4, timeout="5m") + explore("S13", CFG_DEFAULT, 2, shards=8, timeout="5m")
        ts += explore("S8r", "w1-in4-default-direct", 3, shards=8, timeout="10m") + explore("S8r", CFG_DEFAULT, 2, shards=8, timeout="10m")
    return ts


def tasks_c05(tier, seed):
    return seq("c05", tier, shards=12) + seq("c04", tier, shards=8)


def tasks_c07(tier, seed):
    ts = seq("c07", tier, shards=4) + seq("c04", tier, shards=8) + seq("c08", tier, shards=8)
    # two handlers on different workers sending timeout pre-responses at the same time
    if tier == "quick":
        ts += explore("T1", CFG_DEFAULT, 2, shards=4, timeout="100s")
    else:
        ts += explore("T1", CFG_DEFAULT, 3, shards=8, timeout="5m") + explore("T1", "w3-in1-literal-mount", 2, shards=8, timeout="5m")
    return ts


def tasks_c08(tier, seed):
    ts = seq("c08", tier, shards=16)
    # a long backlog on one group: its messages stay in submission order
    ts += explore("Q12", "w1-in4-default-direct", 1, timeout="60s") + explore("Q9", "w1-in4-default-direct", 2, shards=2, timeout="60s")
    # the messages of the second epoch's callbacks must appear on the second epoch's connection
    if tier == "quick":
        ts += explore("S13", "w1-in4-default-direct", 2, timeout="60s") + explore("S13", CFG_DEFAULT, 1, shards=2, timeout="60s")
    else:
        ts += explore("S13", "w1-in4-default-direct", 3, shards=4, timeout="5m") + explore("S13", CFG_DEFAULT, 2, shards=8, timeout="5m")
    return ts


def tasks_c06(tier, seed):
    return seq("c06", tier, shards=16)


def tasks_c17(tier, seed):
    return seq("c17", tier, shards=16 if tier == "thorough" else 8)


def tasks_c18(tier, seed):
    return seq("c18", tier, shards=4) + seq("c04", tier, shards=8) + seq("c07", tier, shards=4)


QE_SCENS = ["QE0", "QE1-model", "QE1-events", "QE1-error", "QE1-notfound", "QE1-panic", "QE1-panicnil", "QE1-nothing", "QE1-timeout", "QE1-twice",
            "QE2", "QEempty", "QEnopayload", "QEnopayloadQ", "QE1Q", "QEfail", "QEconc", "QEconcNil", "QEchain", "QEshutdown", "QEshutdownBusy"]


def tasks_c15(tier, seed):
    w1 = "w1-in4-default-direct"
    # a query event that outlives a Shutdown / Serve cycle, and a new one in the second epoch
    if tier == "quick":
        ts = explore("QErestart", w1, 0, shards=1, timeout="100s")  # bound 1 is 4 million schedules: thorough tier
        # the duration is changed between two starts: an event of the second start lives for the new duration
        ts += explore("QEduration", w1, 1, shards=1, timeout="100s")
    else:
        ts = explore("QErestart", w1, 1, shards=16, timeout="5m") + explore("QErestart", CFG_DEFAULT, 0, shards=4, timeout="5m")
        ts += explore("QEduration", w1, 2, shards=4, timeout="5m") + explore("QEduration", CFG_DEFAULT, 1, shards=4, timeout="5m")
    for s in QE_SCENS:
        big = s in ("QE2", "QEconc", "QEshutdownBusy", "QEnopayloadQ")
        if tier == "quick":
            ts += explore(s, w1, 2, shards=6 if big else 1, timeout="100s")
            if not big:
                ts += explore(s, CFG_DEFAULT, 1, shards=1, timeout="60s")
        else:
            ts += explore(s, w1, 3, shards=8, timeout="5m")
            ts += explore(s, CFG_DEFAULT, 2, shards=8, timeout="5m")
    return ts


ST_SCENS = ["ST1", "ST2", "ST3"]


def tasks_c11(tier, seed):
    ts = seq("c11", tier, shards=16)
    ts += explore("ST4-badger", "", 2 if tier == "quick" else -1, shards=1 if tier == "quick" else 4, timeout="100s" if tier == "quick" else "10m")
    # a transaction handle closed twice while others contend for the id
    if tier == "quick":
        ts += explore("ST5-mock", "", 2, timeout="100s") + explore("ST5-badger-prefix", "", 1, timeout="100s")
    else:
        ts += explore("ST5-mock", "", -1, shards=4, timeout="5m") + explore("ST5-badger-prefix", "", 2, shards=4, timeout="5m")
    # ST6: two writers on different ids and a reader; "badger-split": a scheduling point between every transaction
    # closure and its commit (own mutation seeded/own/C11-badgerstore-shared-encode-buffer.diff needs that window)
    if tier == "quick":
        ts += explore("ST6-mock", "", 1, timeout="100s") + explore("ST6-badger-split", "", 1, timeout="100s")
        ts += explore("ST2-badger-split", "", 2, timeout="100s")
    else:
        ts += explore("ST6-mock", "", 2, shards=4, timeout="10m") + explore("ST6-badger-split", "", 2, shards=8, timeout="10m")
        ts += explore("ST2-badger-split", "", 3, shards=4, timeout="10m")
    for p in ST_SCENS:
        if tier == "quick":
            ts += explore(p + "-mock", "", 2, timeout="100s")
            ts += explore(p + "-badger", "", 2, shards=4 if p == "ST1" else 2, timeout="100s")
            ts += explore(p + "-badger-prefix", "", 1, timeout="100s")
        else:
            ts += explore(p + "-mock", "", -1, shards=4, timeout="10m")
            ts += explore(p + "-badger", "", 3, shards=8, timeout="10m")
            ts += explore(p + "-badger-prefix", "", 2, shards=8, timeout="10m")
    return ts


def SH_TASKS(tier, race=False):
    """store.Handler under interleavings: foreign writers, a fetching client and the change handler's events."""
    ts = []
    w1, w2 = "w1-in4-default-direct", CFG_DEFAULT
    if tier == "quick":
        for typ in ("model", "collection"):
            ts += explore("SH1-mock-" + typ, w2, 1 if race else 2, shards=4, race=race, timeout="100s")
        ts += explore("SH1-badger-prefix-collection", w1, 0 if race else 1, shards=4, race=race, timeout="100s")
        ts += explore("SH2-badger-prefix-collection", w2, 2, shards=4, race=race, timeout="100s")
    else:
        for typ in ("model", "collection"):
            ts += explore("SH1-mock-" + typ, w2, 2 if race else 3, shards=8, race=race, timeout="10m")
            ts += explore("SH1-badger-prefix-" + typ, w1 if race else w2, 1 if race else 2, shards=8, race=race, timeout="10m")
            ts += explore("SH2-badger-prefix-" + typ, w2, 3, shards=8, race=race, timeout="10m")
    return ts


def tasks_c10(tier, seed):
    return seq("c10", tier, shards=12) + SH_TASKS(tier)


def tasks_c20(tier, seed):
    ts = seq("c20", tier, shards=16)
    # LM1 / LM2: change events applied concurrently to two resources of the legacy middleware, with a scheduling
    # point between every transaction closure's return and its commit
    for pkg in ("middleware", "resbadger"):
        if tier == "quick":
            ts += explore("LM1-" + pkg, CFG_DEFAULT, 1, shards=2, timeout="100s")
        else:
            ts += explore("LM1-" + pkg, CFG_DEFAULT, 2, shards=8, timeout="10m")
            ts += explore("LM2-" + pkg, CFG_DEFAULT, 1, shards=8, timeout="10m")
    return ts


def tasks_c12(tier, seed):
    return seq("c12", tier, shards=12)


def tasks_c13(tier, seed):
    return seq("c13", tier, shards=16) + IX_TASKS(tier)


def tasks_c14(tier, seed):
    if tier == "quick":
        return seq("c13", tier, shards=12) + seq("c14h", tier, shards=4)
    return seq("c13", tier, shards=16) + seq("c14h", tier, shards=8)


def IX_TASKS(tier):
    if tier == "quick":
        return explore("IX1", "", 2, shards=2, timeout="100s") + explore("IX2", "", 1, shards=4, timeout="100s")
    return explore("IX1", "", -1, shards=8, timeout="10m") + explore("IX2", "", 2, shards=8, timeout="10m")


def tasks_c16(tier, seed):
    """Every schedule explored here runs under the race detector with the scheduler's own hand-offs hidden (DESIGN.md 2.3)."""
    ts = []
    w1 = "w1-in4-default-direct"
    b = 1 if tier == "quick" else 2
    to = "100s" if tier == "quick" else "10m"
    for s in ["S1", "S2", "S3Reset", "S3ResetAll", "S3TokenEvent", "S3TokenEventWithID", "S3TokenReset", "S4", "S6", "S7", "Q6", "L1", "S1L"]:
        ts += explore(s, w1, b + 1 if s in ("S1", "S3Reset", "L1", "S6") else b, race=True, timeout=to)
        if s not in ("Q6", "L1", "S1L"):
            ts += explore(s, CFG_DEFAULT, b, race=True, timeout=to)
    for s in ["Q1s", "Q2", "Q3"]:
        ts += explore(s, w1, b, race=True, timeout=to)
        ts += explore(s, "w1-in1-tagged-route", b, race=True, shards=2, timeout=to)
    ts += explore("Q1s", "w2-in1-tagged-route", b, race=True, shards=4, timeout=to)
    ts += explore("Q2", CFG_DEFAULT, 2, race=True, shards=2, timeout=to)
    ts += explore("Q2", "w2-in4-literal-mount", 2, race=True, shards=2, timeout=to)
    ts += seq("burst", tier, race=True)
    for s in ["QE1-model", "QE1-panic", "QE2", "QEfail", "QEconc", "QEchain", "QEshutdown", "QEshutdownBusy"]:
        ts += explore(s, w1, b, race=True, timeout=to)
    # two workers: a query callback running beside a callback of the same group would race on the group's scratch word
    ts += explore("QEconcNil", CFG_DEFAULT, b, race=True, shards=1 if tier == "quick" else 8, timeout=to)
    if tier != "quick":
        ts += explore("QEconc", CFG_DEFAULT, 1, race=True, shards=16, timeout=to)
    ts += explore("S8", w1, b, race=True, timeout=to) + explore("S4q", w1, b, race=True, timeout=to)
    # life-cycle races: double Shutdown, double Serve, Shutdown during the start-up of Serve
    ts += explore("S9", w1, b, race=True, shards=2, timeout=to) + explore("S10", CFG_DEFAULT, 2, race=True, timeout=to) + explore("S11", CFG_DEFAULT, 2, race=True, timeout=to)
    ts += explore("S12", w1, b, race=True, shards=2, timeout=to)
    ts += explore("S13b", w1, b + 1, race=True, shards=2, timeout=to)
    ts += explore("T1", CFG_DEFAULT, b, race=True, shards=2, timeout=to) + explore("Q8", CFG_DEFAULT, b, race=True, shards=2, timeout=to)
    ts += STORE_RACE_TASKS(tier)
    ts += SH_TASKS(tier, race=True)
    return ts


def STORE_RACE_TASKS(tier):
    ts = []
    b = 1 if tier == "quick" else 2
    to = "100s" if tier == "quick" else "10m"
    for p in ST_SCENS:
        ts += explore(p + "-mock", "", b, race=True, timeout=to)
        ts += explore(p + "-badger-prefix", "", b, race=True, shards=2, timeout=to)
    # index maintenance against Flush and queries; two store handles on one database
    ts += explore("IX1", "", 2, race=True, shards=2, timeout=to) + explore("ST4-badger", "", 2, race=True, timeout=to)
    return ts


def tasks_c09(tier, seed):
    return seq("c09", tier, shards=8)


def tasks_c19(tier, seed):
    return seq("c19", tier, shards=16)


PLANS = {
    "C01": {"tasks": tasks_c01, "level": "model_checking",
            "assumptions": ["scheduling points = sync/atomic/channel/timer operations of the rewritten packages + harness emits",
                            "sequential consistency; data-race freedom outside visible operations is checked by C16"]},
    "C02": {"tasks": tasks_c01, "level": "model_checking",
            "assumptions": ["same as C01"]},
    "C04": {"tasks": tasks_c04, "level": "model_checking",
            "assumptions": ["one request at a time on a fresh single-worker service; concurrency of requests is covered by C01/C02 scenarios",
                            "quiescence of the controlled scheduler makes absence of a reply final"]},
    "C05": {"tasks": tasks_c05, "level": "model_checking",
            "assumptions": ["reference dispatcher is table driven (most specific pattern, exact method, *, new)", "handler outcome mapping is checked in the c04 enumeration"]},
    "C07": {"tasks": tasks_c07, "level": "model_checking",
            "assumptions": ["independent validator encodes the documented message shapes", "unmarshalable event payloads publish nothing (only responses must degrade to internalError)"]},
    "C08": {"tasks": tasks_c08, "level": "model_checking",
            "assumptions": ["a panic inside a With callback is contained by the harness (go-res does not recover it)"]},
    "C06": {"tasks": tasks_c06, "level": "model_checking",
            "assumptions": ["reference matcher = brute-force token-wise most-specific match", "patterns with a repeated tag name and listeners without handlers are outside the enumerated space"]},
    "C17": {"tasks": tasks_c17, "level": "model_checking",
            "assumptions": ["inputs the documentation leaves undefined ($ inside a tag name, repeated tags) are excluded and counted"]},
    "C18": {"tasks": tasks_c18, "level": "model_checking",
            "assumptions": ["encoding/json generic decoding is the reference for JSON equality", "an explicit soft:false is the same RES value as an absent soft member"]},
    "C15": {"tasks": tasks_c15, "level": "model_checking",
            "assumptions": ["virtual clock: a timer may fire at any point relative to other threads", "NATS model: a message accepted before unsubscribe may arrive later or be dropped; nothing is placed on a channel after Unsubscribe returned"]},
    "C19": {"tasks": tasks_c19, "level": "model_checking",
            "assumptions": ["messages to the inbox are delivered in order and never dropped (a blocked delivery is a late one)", "virtual clock"]},
    "C09": {"tasks": tasks_c09, "level": "model_checking",
            "assumptions": ["the in-memory connection enforces the client's subject rule (no empty token)", "reference NATS matcher: * one token, > one or more trailing tokens"]},
    "C16": {"tasks": tasks_c16, "level": "model_checking",
            "assumptions": ["Go race detector (happens-before, bounded access history) on every explored schedule; scheduler hand-offs are invisible to it (RaceDisable) and shim primitives re-create exactly the edges of the real ones",
                            "client programs are the enumerated scenarios; they only make calls the documentation permits"]},
    "C11": {"tasks": tasks_c11, "level": "model_checking",
            "assumptions": ["a BadgerDB call made by a controlled thread is one atomic step (BadgerDB itself is assumed linearizable)", "keylock and mockstore's RWMutex are scheduler objects"]},
    "C13": {"tasks": tasks_c13, "level": "model_checking",
            "assumptions": ["index keys are NUL-free", "BadgerDB calls are atomic steps"]},
    "C14": {"tasks": tasks_c14, "level": "model_checking",
            "assumptions": ["same enumeration as C13; the query-handler path over a Service is covered by the c14h check"]},
    "C10": {"tasks": tasks_c10, "level": "model_checking",
            "assumptions": ["reference RES client: change sets/deletes keys, add/remove need in-range indexes, create/delete trigger a re-fetch", "mutations go through mockstore (badgerstore shares the OnChange contract checked by C11)"]},
    "C20": {"tasks": tasks_c20, "level": "model_checking",
            "assumptions": ["an add event on a missing collection without default starts from the empty collection (as the code documents)", "deleting a resource that is not stored is unspecified: only 'storage unchanged' is required"]},
    "C12": {"tasks": tasks_c12, "level": "fault_enumeration",
            "assumptions": ["a process kill preserves every completed syscall (page cache survives); power loss is not modelled",
                            "the recorded syscall log is complete: refused if a database file is mapped writable and shared",
                            "BadgerDB recovery (Truncate) is trusted to recover the longest valid log prefix"]},
    "C03": {"tasks": tasks_c03, "level": "model_checking",
            "assumptions": ["Shutdown is called from outside callbacks", "envnats models the connection"]},
}


NOT_YET = {}

E1 = "vsched"
MANIFEST_TEXT = {
    "C01": {"engine": E1, "technique": "stateless model checking of the implementation: preemption-bounded DFS over all interleavings with happens-before state caching",
            "level": "Every interleaving (up to the stated preemption bound) of closed client programs against the real Service under a controlled scheduler; a per-group occupancy monitor is evaluated on every execution. Programs: concurrent requests and With/WithGroup/WithResource producers on shared and distinct groups, idle-to-busy transitions, nested submissions from inside a callback, a full work buffer, query requests / expiry against a callback of the same group, expiry while Shutdown drains the group, and the same after a Shutdown / Serve cycle that dropped queued work; 11 configurations (worker count, in-channel size, group template, mount depth).",
            "note": "Scheduling points are the sync/atomic/channel/timer operations of go-res, timerqueue, taskqueue, keylock and harness emits; plain memory accesses are covered by C16; programs are the enumerated scenarios x configurations."},
    "C02": {"engine": E1, "technique": "stateless model checking of the implementation: preemption-bounded DFS over all interleavings with happens-before state caching",
            "level": "Same exploration as C01 with an exactly-once / submission-order oracle evaluated at quiescence on every execution.",
            "note": "Same trusted base as C01; order is required only between submissions ordered by happens-before in the scenario."},
    "C03": {"engine": E1, "technique": "stateless model checking of the implementation: preemption-bounded DFS, deadlock detection on every schedule",
            "level": "Every interleaving (up to the bound) of Shutdown against With calls, deliveries, publishing API calls, a running callback, subscription failure and restart; deadlock, panics, worker survival, callback-after-return and Close count are checked on every execution; further programs: two concurrent Shutdown calls, two concurrent Serve calls, Shutdown / With / Reset / TokenEvent racing with the start-up of Serve, an in-flight callback that starts a query event, restart after queued work was dropped (callbacks and requests accepted by the restarted service must be served exactly once). In addition every life-cycle sequence of <=5 (6) operations {Serve, failing Serve, refused ListenAndServe, Shutdown, probe request, With} is compared step by step with the {stopped, started} reference machine (explicit-state, 11 699 sequences).",
            "note": "Shutdown is called from outside callbacks; the in-memory connection models NATS delivery; nil-dereference windows between non-visible operations are the domain of C16."},
    "C04": {"engine": "seq", "technique": "bounded-exhaustive enumeration of handler scripts x request kinds x registrations x payloads on the real service under the scheduler (exact quiescence)",
            "level": "Every request kind, registration shape, payload and handler behaviour script up to the length bound runs on a fresh real service; the number of responses is counted after exact quiescence and a probe request checks liveness.",
            "note": "One request at a time per service instance; concurrency of requests is explored in the C01/C02 scenarios."},
    "C05": {"engine": "seq", "technique": "bounded-exhaustive enumeration of registrations x subjects x payload field combinations x request histories against a table-driven reference dispatcher",
            "level": "All handler-kind subsets on 1-2 patterns x 552 subjects with dotted and method-like names, all 2^9 payload field combinations, and all request histories of length <=3 over 8 payloads on one service, compared with a reference dispatcher and outcome mapping.",
            "note": "The reference dispatcher is 120 lines of table lookups written from the property text; accessors are compared with the values the harness itself put into the payload."},
    "C06": {"engine": "seq", "technique": "bounded-exhaustive enumeration of pattern sets x mount arrangements x names against a brute-force reference matcher",
            "level": "Every ordered set of <=2 (quick) / <=3 (thorough) valid patterns over a 6-token alphabet, in 9 arrangements across mounted sub-muxes and path prefixes, 4 group templates, against every name of <=4 tokens plus malformed and near-miss names.",
            "note": "Patterns with a repeated tag name and listeners without handlers are outside the space (unspecified / rejected by Serve)."},
    "C07": {"engine": "seq", "technique": "bounded-exhaustive enumeration of reply/event methods x value zoo x meta x http with an independent protocol validator on every published message",
            "level": "Every exported reply and event method with every value shape (including unmarshalable ones), meta combination and http flag; plus every message published in the C04 and C08 enumerations is parsed by an independent validator.",
            "note": "The validator encodes the documented message shapes; it shares no code with go-res."},
    "C08": {"engine": "seq", "technique": "bounded-exhaustive enumeration of event-call sequences x apply handlers x listener placements x resource types with a global-log reference model",
            "level": "Every sequence of <=3 (4 thorough) event calls over 13 actions in request handlers and With callbacks, with 4 apply-handler modes, 5 listener placements and 3 resource types; one global log of apply/publish/listener steps is compared with a reference log.",
            "note": "Cross-callback ordering on the connection follows from C02 (per-group order) and program order checked here."},
    "C10": {"engine": "seq", "technique": "bounded-exhaustive enumeration of before/after value pairs and mutation histories through the real store handler, replayed by a reference RES client cache and compared with a fresh get",
            "level": "All ordered pairs of collections of length <=4 over three values (14 641 pairs), of richer collections and of models over three keys, plus mutation histories of length <=3 over two ids, for 24 handler configurations (type x transformer x default); each mutation runs through mockstore, OnChange, the store handler's diff and the real Service; the events are applied to the pre-mutation get by a strict reference client (indexes must be in range, no-op changes rejected) and the result must equal a fresh get. In addition (beyond the property's quantifier) scenario SH1 explores every interleaving, up to the preemption bound, of foreign store writers, a fetching client and the change handler on mockstore and badgerstore: the client that takes the get reply at its place in the publish order and applies the later events must equal a fresh get.",
            "note": "Quick tier uses the full pair sets for the IDTransformer configuration and reduced sets for the others."},
    "C11": {"engine": E1, "technique": "bounded-exhaustive operation histories against a map model + stateless model checking of 2-3 contending threads with a porcupine linearizability check on every execution",
            "level": "Sequential: every well-formed history up to the depth bound for mockstore and four badgerstore configurations, compared step by step with a Go map and the expected callback list. Concurrent: every interleaving (preemption bound 2, 3 thorough) of three small transaction programs on colliding ids; each execution's call/return history is checked with porcupine against a per-id register model, plus a lock-exclusion monitor, callback thread/count/chain checks and the final content; a fourth program runs two badgerstore handles on one database, so that commits fail with transaction conflicts (a failed operation must run no change callback).",
            "note": "BadgerDB internals run uninstrumented; binary-marshalled value types are not exercised (see DESIGN.md)."},
    "C12": {"engine": "crashx", "technique": "exhaustive crash-image enumeration of recorded write histories: every syscall-boundary prefix and torn-write cut of each workload's strace log is materialised, reopened with the real BadgerDB and judged against the acknowledgement log",
            "level": "Seventeen recorded runs (4 workloads x prefix set/empty x with/without QueryStore, and an Init larger than one BadgerDB transaction) of the real badgerstore; for every prefix of the recorded file-operation log and every torn cut (1, n/2, n-1 bytes; every byte in the thorough tier) of every value-log write, the image is reopened and checked: content equals the acknowledged state or that with the in-flight call applied, a further Init seeds exactly once, and after RebuildIndexes every index query equals a scan of the stored values.",
            "note": "One recorded history per configuration (not all histories); kill points are all syscall boundaries of that history plus torn value-log writes (a torn MANIFEST or SST write cannot result from a process kill and makes BadgerDB itself refuse to open)."},
    "C13": {"engine": "seq", "technique": "bounded-exhaustive mutation histories on the real badgerstore + QueryStore under the scheduler, every query compared with a sorted/filtered/windowed scan of a model map; Flush race explored by the scheduler",
            "level": "Every mutation history up to the depth bound over 3 ids and 10 key vectors (two indexes, nil and empty keys), including two mutations inside one write transaction, with and without store prefix; 16 basic queries after every history and the full 1344-query set on every distinct content of depth<=2, compared with the reference scan; plus an interleaving exploration of mutations racing with Flush and Query.",
            "note": "taskqueue is a scheduler object; BadgerDB runs uninstrumented."},
    "C14": {"engine": "seq", "technique": "same enumeration as C13 with a callback oracle: OnQueryChange count per mutation, query results inside the callback, Events() against before/after reference results",
            "level": "For every mutation of every enumerated history: query-change callbacks fire exactly once iff an index key changed and after the index reflects it (queries issued inside the callback equal the post-state reference), Events reports affected whenever the reference result differs and unaffected when neither key matches; the QueryHandler path is run on a real Service for ordinary and query resources, with and without path parameters and AffectedResources callbacks (including an affected resource whose events cannot be generated, and resources sharing one normalised query).",
            "note": "Five probe queries per mutation (both indexes, prefixes, filter, window)."},
    "C20": {"engine": "seq", "technique": "bounded-exhaustive event sequences through both legacy BadgerDB middleware packages on a real BadgerDB, compared with a reference fold after every event and after reopening the database; plus a preemption-bounded interleaving exploration of two concurrent change events (scheduling point between transaction closure and commit)",
            "level": "Every sequence of <=4 (5 thorough) events over the model / collection event alphabets for 16 configurations (package x type x typed x default x index set): after each event the get response, Value(), the published event and the listener's old values / deleted data are compared with a reference fold; inapplicable events must publish nothing and leave storage unchanged; the database is closed and reopened and compared with the fold. Plus every interleaving up to the preemption bound of two change events applied concurrently to two resources (two workers), with a scheduling point between each transaction closure and its commit: stored JSON and get responses equal the fold.",
            "note": "Events are emitted from With callbacks of a real Service under the scheduler; the database is reopened after every 25th sequence."},
    "C15": {"engine": E1, "technique": "stateless model checking of the implementation with a virtual clock: preemption-bounded DFS over interleavings of query requests, expiry and callbacks",
            "level": "Every interleaving (up to the bound) of a query event with 0-2 requesters (valid, empty, missing and malformed queries), every callback behaviour, subscription failure, a concurrent callback of the same group, a chain of three events, Shutdown while the event is active (with the group idle or busy) and an event that outlives a Shutdown / Serve cycle; the timer fires at any point; responses, nil-call count/order, group serialisation and released resources are checked on every execution.",
            "note": "The in-memory connection models acceptance/arrival of messages separately; inbox names are canonicalised."},
    "C19": {"engine": E1, "technique": "explicit-state reference model of SendRequest/environment/clock + stateless exploration of the real SendRequest under the controlled scheduler for every environment script; observed outcomes must be model outcomes",
            "level": "For every environment script up to the length bound and every connection fault, all interleavings (preemption bound 2) of the real SendRequest, the scripted environment and the virtual clock are executed; each observed (response class, extension callbacks) pair must be allowed by a nondeterministic reference model explored exhaustively, and the inbox subscription must be released on every path.",
            "note": "Evidence reports model outcomes vs observed outcomes (both directions); the inbox is never overrun in the environment model."},
    "C09": {"engine": "seq", "technique": "bounded-exhaustive enumeration of service configurations (name x ownership lists x handler kinds x queue group) against a reference NATS matcher over all request subjects",
            "level": "Every configuration in the enumerated space is served on a connection that enforces subject validity; subscriptions, queue groups and the three system.reset payloads (start, ResetAll, reconnect path) are compared with the reference ownership for every request subject over names of <=3 tokens.",
            "note": "No differential against a real nats-server (that would be sampling a network stack); the subject rule mirrors nats.go's badSubject."},
    "C16": {"engine": E1, "technique": "stateless model checking under the race detector: every explored schedule of the concurrency scenarios is checked for unsynchronised conflicting accesses",
            "level": "The scenarios of C01/C02/C03/C15 (plus logger, store, index and store-handler scenarios) are explored exhaustively up to the preemption bound in a -race build in which the scheduler's hand-offs are hidden from the detector, so each schedule is checked for accesses unordered by go-res's own synchronisation, including the deliberately unsynchronised per-group scratch memory of the harness callbacks.",
            "note": "Exhaustive within the preemption bound and the scenario set, not over all programs; the in-memory connection has an internal mutex like nats.Conn."},
    "C17": {"engine": "seq", "technique": "bounded-exhaustive enumeration of pattern and name strings over the special-character alphabet against a tokenising reference",
            "level": "Every pattern string of <=5 (6 thorough) characters over 8 symbols against every name of <=5 characters over 5 symbols, all pattern/pattern cover pairs, parts, resource ids, method/event argument checks, tag maps and the id-transformer round trip.",
            "note": "Inputs the documentation leaves undefined are excluded and counted in the evidence."},
    "C18": {"engine": "seq", "technique": "bounded-exhaustive enumeration of strings, JSON values and JSON texts through the marshalling code, compared with encoding/json generic decoding",
            "level": "Every string of <=3 (4 thorough) code points through Ref/SoftRef, every JSON value of depth <=2 through the data-value functions, 30 JSON text templates x 5 whitespace placements through store.Value (classification, equivalence on all pairs/triples), and every response of the C04/C07 enumerations through resprot.ParseResponse.",
            "note": "encoding/json is the reference for JSON equality."},
}


# ---------------------------------------------------------------------------------------------

def merge(prop, tier, seed, P, results):
    cov = {"exhaustive": True}
    viol = []
    ex = [r for r in results if r["_task"]["kind"] == "explore"]
    sq = [r for r in results if r["_task"]["kind"] == "seq"]
    samples = []
    if ex:
        groups = {}
        for r in ex:
            g = groups.setdefault(r["_task"]["group"], {"execs": 0, "pruned": 0, "states": 0, "steps": 0, "outcomes": set(),
                                                        "exhaustive": True, "deadlocks": 0, "bound": r["bound"]})
            g["execs"] += r["execs"]
            g["pruned"] += r["pruned"]
            g["states"] += r["states"]
            g["steps"] += r["steps"]
            g["deadlocks"] += r["deadlocks"]
            g["outcomes"].update(r.get("outcome_keys") or [])
            g["exhaustive"] = g["exhaustive"] and r["exhaustive"]
            if r.get("sample") and len(samples) < 3 and r["_task"]["argv"][r["_task"]["argv"].index("-shard") + 1].startswith("0/"):
                samples.append({"scenario": r["scenario"], "cfg": r["cfg"], "bound": r["bound"], "observations_of_first_schedule": r["sample"][:40]})
            for v in r.get("violations") or []:
                if v["desc"].startswith(prop + ":"):
                    viol.append({"desc": "%s [%s %s bound %s]" % (v["desc"], r["scenario"], r["cfg"], r["bound"]), "scenario": r["scenario"],
                                 "replay": {"kind": "schedule", "scenario": r["scenario"], "cfg": r["cfg"], "choices": v["choices"]}})
            if r.get("_racelogs"):
                for log in r["_racelogs"]:
                    viol.append({"desc": "C16: data race report: " + log[:3000], "scenario": r["scenario"], "replay": {"kind": "racelog", "log": log}})
        cov["states"] = sum(g["states"] for g in groups.values())
        cov["transitions"] = sum(g["steps"] for g in groups.values())
        cov["traces_validated_against_impl"] = sum(g["execs"] for g in groups.values())
        cov["schedules"] = sum(g["execs"] - g["pruned"] for g in groups.values())
        cov["pruned_by_hb_cache"] = sum(g["pruned"] for g in groups.values())
        cov["distinct_outcomes"] = sum(len(g["outcomes"]) for g in groups.values())
        cov["deadlocks"] = sum(g["deadlocks"] for g in groups.values())
        cov["explorations"] = {k: {"schedules": g["execs"], "pruned": g["pruned"], "states": g["states"], "outcomes": len(g["outcomes"]),
                                   "preemption_bound_completed": g["bound"] if g["exhaustive"] else None, "exhaustive": g["exhaustive"]}
                               for k, g in sorted(groups.items())}
        cov["exhaustive"] = all(g["exhaustive"] for g in groups.values())
    if sq:
        cov["evaluations"] = sum(r["evaluations"] for r in sq)
        cov["distinct_nontrivial"] = sum(r["distinct_nontrivial"] for r in sq)
        cov["executions_of_real_code"] = cov["evaluations"]
        cov["seq_checks"] = {}
        for r in sq:
            for log in r.get("_racelogs") or []:
                viol.append({"desc": "C16: data race report: " + log[:3000], "scenario": r["check"], "replay": {"kind": "racelog", "log": log}})
            c = cov["seq_checks"].setdefault(r["check"], {"evaluations": 0, "distinct_nontrivial": 0, "exhaustive": True, "excluded_unspecified": 0, "extra": {}})
            c["evaluations"] += r["evaluations"]
            c["distinct_nontrivial"] += r["distinct_nontrivial"]
            c["exhaustive"] = c["exhaustive"] and r["exhaustive"]
            c["excluded_unspecified"] += r.get("excluded_unspecified", 0)
            for k, v in (r.get("extra") or {}).items():
                c["extra"][k] = c["extra"].get(k, 0) + v
            if r.get("rule"):
                c["rule"] = r["rule"]
            if r.get("samples") and len(samples) < 6 and not any(x.get("check") == r["check"] for x in samples):
                samples.append({"check": r["check"], "cases": r["samples"][:5]})
            for v in r.get("violations") or []:
                if v["desc"].startswith(prop + ":") or not v["desc"][:3] in PLANS:
                    viol.append({"desc": v["desc"], "scenario": r["check"],
                                 "replay": {"kind": "seq", "check": r["check"], "input": v.get("input", "")}})
        cov["exhaustive"] = cov["exhaustive"] and all(r["exhaustive"] for r in sq)
        cov["rule"] = "; ".join(sorted(set(r.get("rule", "") for r in sq)))
    cov["samples"] = samples or [{"note": "no sample recorded"}]
    ev = {"property_id": prop, "tier": tier, "seed": seed, "level": P["level"], "coverage": cov,
          "assumptions": P.get("assumptions", [])}
    return ev, viol

// vrewrite binds the explorer to the *current* go-res sources by build overlay (DESIGN.md 2.1):
// it parses the packages below from $VERIF_REPO and the module cache, rewrites sync / sync/atomic / time
// imports to scheduler shims, `go` statements to vsched.Go and channel operations to scheduler waits,
// and writes the rewritten copies plus overlay.json under the work directory. /repo is never modified.
package main

import (
	"bytes"
	"crypto/sha256"
	"encoding/hex"
	"encoding/json"
	"flag"
	"fmt"
	"go/ast"
	"go/format"
	"go/parser"
	"go/token"
	"go/types"
	"os"
	"path/filepath"
	"strconv"
	"strings"

	"golang.org/x/tools/go/packages"
)

var pkgs = []string{
	"github.com/jirenius/go-res",
	"github.com/jirenius/go-res/logger",
	"github.com/jirenius/go-res/store",
	"github.com/jirenius/go-res/store/mockstore",
	"github.com/jirenius/go-res/store/badgerstore",
	"github.com/jirenius/go-res/resprot",
	"github.com/jirenius/go-res/middleware",
	"github.com/jirenius/go-res/middleware/resbadger",
	"github.com/jirenius/timerqueue",
	"github.com/jirenius/taskqueue",
	"github.com/jirenius/keylock",
}

// packages in which "time" is virtualised
var vtimePkgs = map[string]bool{
	"github.com/jirenius/timerqueue":     true,
	"github.com/jirenius/go-res/resprot": true,
}

// oldLoopSemantics reports whether a module with this go directive has per-loop (shared) loop variables.
func oldLoopSemantics(v string) bool {
	if v == "" {
		return true
	}
	parts := strings.Split(v, ".")
	if len(parts) < 2 {
		return false
	}
	maj, _ := strconv.Atoi(parts[0])
	min, _ := strconv.Atoi(parts[1])
	return maj == 1 && min < 22
}

func fatal(format string, a ...any) {
	fmt.Fprintf(os.Stderr, "MACHINERY vrewrite: "+format+"\n", a...)
	os.Exit(2)
}

type rewriter struct {
	fset          *token.FileSet
	info          *types.Info
	pkgPath       string
	file          *ast.File
	changed       bool
	needVS        bool
	fname         string
	tmp           int
	handled       map[ast.Node]bool
	pkg           *types.Package
	sharedLoopVar bool // module declares go < 1.22: one loop variable per loop, not per iteration
}

func main() {
	out := flag.String("out", "", "work directory for overlay files")
	dir := flag.String("dir", ".", "harness module directory")
	flag.Parse()
	if *out == "" {
		fatal("missing -out")
	}
	cfg := &packages.Config{
		Mode: packages.NeedName | packages.NeedFiles | packages.NeedCompiledGoFiles | packages.NeedSyntax |
			packages.NeedTypes | packages.NeedTypesInfo | packages.NeedImports | packages.NeedDeps | packages.NeedModule,
		Dir: *dir,
		Env: os.Environ(),
	}
	loaded, err := packages.Load(cfg, pkgs...)
	if err != nil {
		fatal("load: %v", err)
	}
	overlay := map[string]string{}
	odir := filepath.Join(*out, "overlay")
	os.RemoveAll(odir)
	for _, p := range loaded {
		for _, e := range p.Errors {
			fatal("package %s: %v", p.PkgPath, e)
		}
		for i, f := range p.Syntax {
			fname := p.CompiledGoFiles[i]
			if strings.HasSuffix(fname, "_test.go") {
				continue
			}
			rw := &rewriter{fset: p.Fset, info: p.TypesInfo, pkgPath: p.PkgPath, file: f, fname: fname, pkg: p.Types}
			if p.Module != nil {
				rw.sharedLoopVar = oldLoopSemantics(p.Module.GoVersion)
			}
			rw.run()
			if !rw.changed {
				continue
			}
			// keep only directive comments: free-floating comments get misplaced around inserted nodes
			var keep []*ast.CommentGroup
			for _, cg := range f.Comments {
				var l []*ast.Comment
				for _, c := range cg.List {
					if strings.HasPrefix(c.Text, "//go:") || strings.HasPrefix(c.Text, "// +build") {
						l = append(l, c)
					}
				}
				if len(l) > 0 {
					keep = append(keep, &ast.CommentGroup{List: l})
				}
			}
			f.Comments = keep
			var buf bytes.Buffer
			if err := format.Node(&buf, p.Fset, f); err != nil {
				fatal("format %s: %v", fname, err)
			}
			dst := filepath.Join(odir, p.PkgPath, filepath.Base(fname))
			os.MkdirAll(filepath.Dir(dst), 0o755)
			if err := os.WriteFile(dst, buf.Bytes(), 0o644); err != nil {
				fatal("%v", err)
			}
			overlay[fname] = dst
		}
		// R7: added export file
		if p.PkgPath == "github.com/jirenius/go-res" && len(p.GoFiles) > 0 {
			src := exportFile(p.Types)
			pdir := filepath.Dir(p.GoFiles[0])
			dst := filepath.Join(odir, p.PkgPath, "export_verif.go")
			os.MkdirAll(filepath.Dir(dst), 0o755)
			os.WriteFile(dst, []byte(src), 0o644)
			overlay[filepath.Join(pdir, "export_verif.go")] = dst
		}
	}
	patchNats(cfg, odir, overlay)
	data, _ := json.MarshalIndent(map[string]any{"Replace": overlay}, "", " ")
	if err := os.WriteFile(filepath.Join(*out, "overlay.json"), data, 0o644); err != nil {
		fatal("%v", err)
	}
	fmt.Printf("vrewrite: %d files in overlay\n", len(overlay))
}

// exportFile generates the read-only re-exports the harness uses. An unexported helper that no longer exists
// (renamed or removed by a change to go-res) becomes a stub listed in VerifMissing, so that the harness
// skips the sub-checks built on it instead of failing to compile.
func exportFile(pkg *types.Package) string {
	has := func(name string) bool {
		if pkg == nil {
			return false
		}
		o := pkg.Scope().Lookup(name)
		_, ok := o.(*types.Func)
		return ok
	}
	hasMethod := func(typ, name string) bool {
		if pkg == nil {
			return false
		}
		o := pkg.Scope().Lookup(typ)
		if o == nil {
			return false
		}
		m, _, _ := types.LookupFieldOrMethod(types.NewPointer(o.Type()), true, pkg, name)
		_, ok := m.(*types.Func)
		return ok
	}
	var b strings.Builder
	var missing []string
	b.WriteString("//go:build verif\n\npackage res\n\n// Read-only re-exports for the verification harness (no behaviour change).\n\n")
	gen := func(ok bool, name, real, stub string) {
		if ok {
			b.WriteString(real + "\n")
		} else {
			b.WriteString(stub + "\n")
			missing = append(missing, name)
		}
	}
	gen(has("isValidPart"), "isValidPart", "func VerifIsValidPart(p string) bool { return isValidPart(p) }", "func VerifIsValidPart(p string) bool { return false }")
	gen(has("isValidPath"), "isValidPath", "func VerifIsValidPath(p string) bool { return isValidPath(p) }", "func VerifIsValidPath(p string) bool { return false }")
	gen(has("mergePattern"), "mergePattern", "func VerifMergePattern(a, b string) string { return mergePattern(a, b) }", "func VerifMergePattern(a, b string) string { return \"\" }")
	gen(hasMethod("Service", "handleReconnect"), "handleReconnect", "func VerifHandleReconnect(s *Service) { s.handleReconnect(nil) }", "func VerifHandleReconnect(s *Service) {}")
	b.WriteString("\n// VerifMissing lists the helpers above that this tree does not have.\nvar VerifMissing = map[string]bool{")
	for _, m := range missing {
		fmt.Fprintf(&b, "%q: true, ", m)
	}
	b.WriteString("}\n")
	return b.String()
}

func (rw *rewriter) pos(n ast.Node) string {
	p := rw.fset.Position(n.Pos())
	return fmt.Sprintf("%s:%d", filepath.Base(p.Filename), p.Line)
}

func (rw *rewriter) run() {
	// imports
	for _, imp := range rw.file.Imports {
		path, _ := strconv.Unquote(imp.Path.Value)
		var np, base string
		switch path {
		case "sync":
			np, base = "verif/shim/vsync", "sync"
		case "sync/atomic":
			np, base = "verif/shim/vatomic", "atomic"
		case "time":
			if vtimePkgs[rw.pkgPath] {
				np, base = "verif/shim/vtime", "time"
			}
		}
		if np == "" {
			continue
		}
		imp.Path.Value = strconv.Quote(np)
		if imp.Name == nil {
			imp.Name = ast.NewIdent(base)
		}
		rw.changed = true
	}
	// R8: a call on a *badger.DB is an access to shared external state: scheduling point before it
	ast.Inspect(rw.file, func(n ast.Node) bool {
		call, ok := n.(*ast.CallExpr)
		if !ok {
			return true
		}
		sel, ok := call.Fun.(*ast.SelectorExpr)
		if !ok {
			return true
		}
		tv, ok := rw.info.Types[sel.X]
		if !ok || tv.Type == nil {
			return true
		}
		if tv.Type.String() == "*github.com/dgraph-io/badger.DB" {
			// R8b: the closure of a read-write transaction is wrapped so that a scenario can ask for a second
			// scheduling point between the closure's return and the commit (vsched.SplitCommit)
			if sel.Sel.Name == "Update" && len(call.Args) == 1 && rw.pure(sel.X) {
				call.Args[0] = vcall("TxnFn", sel.X, call.Args[0])
			}
			sel.X = vcall("DBPoint", sel.X)
			rw.needVS = true
			rw.changed = true
		}
		return true
	})
	// statements
	ast.Inspect(rw.file, func(n ast.Node) bool {
		switch b := n.(type) {
		case *ast.BlockStmt:
			b.List = rw.stmts(b.List)
		case *ast.CaseClause:
			b.Body = rw.stmts(b.Body)
		case *ast.CommClause:
			b.Body = rw.stmts(b.Body)
		case *ast.LabeledStmt:
			if r := rw.single(b.Stmt); r != nil {
				b.Stmt = r
			}
		}
		return true
	})
	// any channel operation left un-rewritten is unsupported
	handled := rw.handled
	ast.Inspect(rw.file, func(n ast.Node) bool {
		switch x := n.(type) {
		case *ast.UnaryExpr:
			if x.Op == token.ARROW && !handled[x] {
				fatal("unsupported construct: receive expression at %s", rw.pos(x))
			}
		case *ast.SelectStmt:
			fatal("unsupported construct: select at %s", rw.pos(x))
		case *ast.GoStmt:
			fatal("unsupported construct: go statement at %s", rw.pos(x))
		case *ast.SendStmt:
			if !handled[x] {
				fatal("unsupported construct: send at %s", rw.pos(x))
			}
		case *ast.RangeStmt:
			if rw.isChan(x.X) {
				fatal("unsupported construct: range over channel at %s", rw.pos(x))
			}
		}
		return true
	})
	if rw.needVS {
		addImport(rw.file, "verif/vsched", "vsched")
		rw.changed = true
	}
}

func addImport(f *ast.File, path, name string) {
	spec := &ast.ImportSpec{Name: ast.NewIdent(name), Path: &ast.BasicLit{Kind: token.STRING, Value: strconv.Quote(path)}}
	for _, d := range f.Decls {
		if g, ok := d.(*ast.GenDecl); ok && g.Tok == token.IMPORT {
			g.Specs = append(g.Specs, spec)
			if !g.Lparen.IsValid() {
				g.Lparen = g.Pos()
				g.Rparen = g.End()
			}
			return
		}
	}
	f.Decls = append([]ast.Decl{&ast.GenDecl{Tok: token.IMPORT, Specs: []ast.Spec{spec}}}, f.Decls...)
}

func (rw *rewriter) isChan(e ast.Expr) bool {
	tv, ok := rw.info.Types[e]
	if !ok || tv.Type == nil {
		return false
	}
	_, ok = tv.Type.Underlying().(*types.Chan)
	return ok
}

func vcall(fn string, args ...ast.Expr) *ast.CallExpr {
	return &ast.CallExpr{Fun: &ast.SelectorExpr{X: ast.NewIdent("vsched"), Sel: ast.NewIdent(fn)}, Args: args}
}

func (rw *rewriter) name(prefix string) string {
	rw.tmp++
	return fmt.Sprintf("%s__v%d", prefix, rw.tmp)
}

var _ = sha256.Sum256

func (rw *rewriter) pure(e ast.Expr) bool {
	switch x := e.(type) {
	case *ast.Ident:
		return true
	case *ast.SelectorExpr:
		return rw.pure(x.X)
	case *ast.ParenExpr:
		return rw.pure(x.X)
	}
	return false
}

func (rw *rewriter) mark(n ast.Node) {
	if rw.handled == nil {
		rw.handled = map[ast.Node]bool{}
	}
	rw.handled[n] = true
}

// recvOf returns the receive expression if s is `<-c`, `v := <-c`, `v, ok = <-c` or `return <-c`-free forms.
func recvOf(s ast.Stmt) *ast.UnaryExpr {
	switch x := s.(type) {
	case *ast.ExprStmt:
		if u, ok := x.X.(*ast.UnaryExpr); ok && u.Op == token.ARROW {
			return u
		}
	case *ast.AssignStmt:
		if len(x.Rhs) == 1 {
			if u, ok := x.Rhs[0].(*ast.UnaryExpr); ok && u.Op == token.ARROW {
				return u
			}
		}
	}
	return nil
}

// stmts rewrites a statement list, inserting scheduler waits.
func (rw *rewriter) stmts(list []ast.Stmt) []ast.Stmt {
	var out []ast.Stmt
	for _, s := range list {
		if u := recvOf(s); u != nil && !rw.handled[u] {
			if !rw.pure(u.X) {
				fatal("unsupported construct: receive from impure channel expression at %s", rw.pos(u))
			}
			rw.mark(u)
			rw.needVS = true
			out = append(out, &ast.ExprStmt{X: vcall("WaitRecv", u.X)}, s)
			continue
		}
		switch x := s.(type) {
		case *ast.SendStmt:
			if !rw.pure(x.Chan) {
				fatal("unsupported construct: send on impure channel expression at %s", rw.pos(x))
			}
			rw.mark(x)
			rw.needVS = true
			out = append(out, &ast.ExprStmt{X: vcall("WaitSend", x.Chan)}, s)
			continue
		case *ast.ExprStmt:
			if c, ok := x.X.(*ast.CallExpr); ok {
				if id, ok := c.Fun.(*ast.Ident); ok && id.Name == "close" && len(c.Args) == 1 && rw.isChan(c.Args[0]) {
					if _, isBuiltin := rw.info.Uses[id].(*types.Builtin); isBuiltin {
						rw.needVS = true
						out = append(out, &ast.ExprStmt{X: vcall("Close", c.Args[0])}, s)
						continue
					}
				}
			}
		}
		if r := rw.single(s); r != nil {
			out = append(out, r)
			continue
		}
		out = append(out, s)
	}
	return out
}

// single rewrites statements that are replaced as a whole (go, range over channel, select).
func (rw *rewriter) single(s ast.Stmt) ast.Stmt {
	switch x := s.(type) {
	case *ast.GoStmt:
		rw.needVS = true
		return rw.goStmt(x)
	case *ast.RangeStmt:
		if rw.isChan(x.X) {
			rw.needVS = true
			return rw.rangeChan(x)
		}
	case *ast.SelectStmt:
		rw.needVS = true
		return rw.selectStmt(x)
	}
	return nil
}

func exprString(fset *token.FileSet, e ast.Expr) string {
	var b bytes.Buffer
	format.Node(&b, fset, e)
	return b.String()
}

func (rw *rewriter) goStmt(g *ast.GoStmt) ast.Stmt {
	call := g.Call
	name := &ast.BasicLit{Kind: token.STRING, Value: strconv.Quote(rw.pos(g) + " " + exprString(rw.fset, call.Fun))}
	if fl, ok := call.Fun.(*ast.FuncLit); ok && len(call.Args) == 0 {
		name.Value = strconv.Quote(rw.pos(g) + " func")
		return &ast.ExprStmt{X: vcall("Go", name, fl)}
	}
	blk := &ast.BlockStmt{}
	fn := rw.name("f")
	blk.List = append(blk.List, &ast.AssignStmt{Lhs: []ast.Expr{ast.NewIdent(fn)}, Tok: token.DEFINE, Rhs: []ast.Expr{call.Fun}})
	var args []ast.Expr
	for _, a := range call.Args {
		an := rw.name("a")
		blk.List = append(blk.List, &ast.AssignStmt{Lhs: []ast.Expr{ast.NewIdent(an)}, Tok: token.DEFINE, Rhs: []ast.Expr{a}})
		args = append(args, ast.NewIdent(an))
	}
	inner := &ast.CallExpr{Fun: ast.NewIdent(fn), Args: args, Ellipsis: call.Ellipsis}
	lit := &ast.FuncLit{Type: &ast.FuncType{Params: &ast.FieldList{}}, Body: &ast.BlockStmt{List: []ast.Stmt{&ast.ExprStmt{X: inner}}}}
	blk.List = append(blk.List, &ast.ExprStmt{X: vcall("Go", name, lit)})
	return blk
}

// qualifier names packages the way this file imports them.
func (rw *rewriter) qualifier() types.Qualifier {
	names := map[string]string{}
	for _, imp := range rw.file.Imports {
		path, _ := strconv.Unquote(imp.Path.Value)
		if imp.Name != nil {
			names[path] = imp.Name.Name
		}
	}
	return func(p *types.Package) string {
		if p == rw.pkg {
			return ""
		}
		if n, ok := names[p.Path()]; ok {
			return n
		}
		return p.Name()
	}
}

func (rw *rewriter) rangeChan(r *ast.RangeStmt) ast.Stmt {
	if !rw.pure(r.X) {
		fatal("unsupported construct: range over impure channel expression at %s", rw.pos(r))
	}
	ok := rw.name("ok")
	recv := &ast.UnaryExpr{Op: token.ARROW, X: r.X}
	rw.mark(recv)
	var pre []ast.Stmt
	pre = append(pre, &ast.ExprStmt{X: vcall("WaitRecv", r.X)})
	var key ast.Expr = ast.NewIdent("_")
	if r.Key != nil {
		key = r.Key
	}
	var outer ast.Stmt
	if r.Tok == token.ASSIGN || (rw.sharedLoopVar && r.Key != nil) {
		pre = append(pre, &ast.DeclStmt{Decl: &ast.GenDecl{Tok: token.VAR, Specs: []ast.Spec{&ast.ValueSpec{Names: []*ast.Ident{ast.NewIdent(ok)}, Type: ast.NewIdent("bool")}}}})
		pre = append(pre, &ast.AssignStmt{Lhs: []ast.Expr{key, ast.NewIdent(ok)}, Tok: token.ASSIGN, Rhs: []ast.Expr{recv}})
		if r.Tok == token.DEFINE {
			// go < 1.22: the loop variable is declared once for the whole loop
			ch := rw.info.Types[r.X].Type.Underlying().(*types.Chan)
			texpr, err := parser.ParseExpr(types.TypeString(ch.Elem(), rw.qualifier()))
			if err != nil {
				fatal("cannot express the element type of the channel ranged over at %s: %v", rw.pos(r), err)
			}
			outer = &ast.DeclStmt{Decl: &ast.GenDecl{Tok: token.VAR, Specs: []ast.Spec{&ast.ValueSpec{Names: []*ast.Ident{r.Key.(*ast.Ident)}, Type: texpr}}}}
		}
	} else {
		pre = append(pre, &ast.AssignStmt{Lhs: []ast.Expr{key, ast.NewIdent(ok)}, Tok: token.DEFINE, Rhs: []ast.Expr{recv}})
	}
	pre = append(pre, &ast.IfStmt{Cond: &ast.UnaryExpr{Op: token.NOT, X: ast.NewIdent(ok)}, Body: &ast.BlockStmt{List: []ast.Stmt{&ast.BranchStmt{Tok: token.BREAK}}}})
	body := &ast.BlockStmt{List: append(pre, r.Body)}
	if outer != nil {
		return &ast.BlockStmt{List: []ast.Stmt{outer, &ast.ForStmt{Body: body}}}
	}
	return &ast.ForStmt{Body: body}
}

func (rw *rewriter) selectStmt(sel *ast.SelectStmt) ast.Stmt {
	var chans []ast.Expr
	sw := &ast.SwitchStmt{Body: &ast.BlockStmt{}}
	for i, c := range sel.Body.List {
		cc := c.(*ast.CommClause)
		if cc.Comm == nil {
			fatal("unsupported construct: select with default at %s", rw.pos(sel))
		}
		u := recvOf(cc.Comm)
		if u == nil {
			fatal("unsupported construct: select with a send case at %s", rw.pos(sel))
		}
		if !rw.pure(u.X) {
			fatal("unsupported construct: select on impure channel expression at %s", rw.pos(u))
		}
		rw.mark(u)
		chans = append(chans, u.X)
		body := append([]ast.Stmt{cc.Comm}, cc.Body...)
		sw.Body.List = append(sw.Body.List, &ast.CaseClause{
			List: []ast.Expr{&ast.BasicLit{Kind: token.INT, Value: strconv.Itoa(i)}},
			Body: body,
		})
	}
	sw.Tag = vcall("SelectRecv", chans...)
	return sw
}

// patchNats applies R6 to the pinned nats.go file.
func patchNats(cfg *packages.Config, odir string, overlay map[string]string) {
	c2 := *cfg
	c2.Mode = packages.NeedName | packages.NeedFiles
	ps, err := packages.Load(&c2, "github.com/nats-io/nats.go")
	if err != nil || len(ps) != 1 {
		fatal("load nats.go: %v", err)
	}
	var target string
	for _, f := range ps[0].GoFiles {
		if filepath.Base(f) == "nats.go" {
			target = f
		}
	}
	if target == "" {
		fatal("nats.go not found")
	}
	src, err := os.ReadFile(target)
	if err != nil {
		fatal("%v", err)
	}
	sum := sha256.Sum256(src)
	const want = "bb88d6815fc2912a4f2071249513c72f253cef7c202533a67c9f6fae96f8aa4c"
	got := hex.EncodeToString(sum[:])
	if got != want {
		fatal("nats.go checksum mismatch: %s", got)
	}
	s := string(src)
	for _, h := range []struct{ sig, op string }{
		{"func (s *Subscription) Drain() error {", "drain"},
		{"func (s *Subscription) Unsubscribe() error {", "unsubscribe"},
		{"func (s *Subscription) AutoUnsubscribe(max int) error {", "autounsubscribe"},
	} {
		if strings.Count(s, h.sig) != 1 {
			fatal("nats.go: anchor %q not found exactly once", h.sig)
		}
		arg := "\"" + h.op + "\""
		if h.op == "autounsubscribe" {
			arg = "\"autounsubscribe:\" + strconv.Itoa(max)"
		}
		s = strings.Replace(s, h.sig, h.sig+"\n\tif h := verifSubHook(s); h != nil {\n\t\treturn h("+arg+")\n\t}", 1)
	}
	dst := filepath.Join(odir, "github.com/nats-io/nats.go", "nats.go")
	os.MkdirAll(filepath.Dir(dst), 0o755)
	os.WriteFile(dst, []byte(s), 0o644)
	overlay[target] = dst
	add := `package nats

import "sync"

// Verification hook (overlay only): lets an in-memory connection observe Drain/Unsubscribe on
// subscriptions it created.

var (
	verifHookMu sync.Mutex
	verifHooks  = map[*Subscription]func(op string) error{}
)

func verifSubHook(s *Subscription) func(op string) error {
	if s == nil {
		return nil
	}
	verifHookMu.Lock()
	defer verifHookMu.Unlock()
	return verifHooks[s]
}

// VerifNewSubscription returns a Subscription whose Drain/Unsubscribe/AutoUnsubscribe call hook.
func VerifNewSubscription(subject, queue string, hook func(op string) error) *Subscription {
	s := &Subscription{Subject: subject, Queue: queue}
	verifHookMu.Lock()
	verifHooks[s] = hook
	verifHookMu.Unlock()
	return s
}

// VerifForgetSubscriptions drops all hooks (between executions).
func VerifForgetSubscriptions() {
	verifHookMu.Lock()
	verifHooks = map[*Subscription]func(op string) error{}
	verifHookMu.Unlock()
}
`
	dst2 := filepath.Join(odir, "github.com/nats-io/nats.go", "nats_verif.go")
	os.WriteFile(dst2, []byte(add), 0o644)
	overlay[filepath.Join(filepath.Dir(target), "nats_verif.go")] = dst2
}
